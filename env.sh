# sourced by every govc command: offline Go environment with the toolchain /repo's go.mod selects
export PATH=/root/go/pkg/mod/golang.org/toolchain@v0.0.1-go1.25.4.linux-amd64/bin:$PATH
export GOFLAGS=-mod=mod GOPROXY=off GOSUMDB=off GOTOOLCHAIN=local CGO_ENABLED=0
