#!/usr/bin/env python3
# Regenerates MANIFEST.json from the claims table below (kept in one place so claims and N/A stay in sync).
import json
props=[json.loads(l)['id'] for l in open('/verif/properties.jsonl')]
TECH="contract-based deductive verification: contracts in /repo/<pkg>/zz_contracts_verif.go, VCs generated from go/ssa of the current tree by govc, discharged by z3/z3-new/cvc5"
claims={
 "C18": dict(
  text="Every Go-level byte-search primitive of package simd (SWAR kernels memchr/2/3/Pair/isASCII, scalar class/digit/table kernels, dispatch wrappers for hasAVX2 true and false, Memmem family, SelectRareBytes) is proved equal to its scalar definition for all haystacks, lengths and needles, with all index/slice/overflow obligations and loop termination; unbounded (loop invariants).",
  note="Assembly kernels (*AVX2) are trusted contracts equal to the scalar definition (not proved; no bounded stand-in registered yet). Trusted: encoding/binary.LittleEndian.Uint64, math/bits.TrailingZeros64, bytes.Equal specs; len<=2^48; govc translation itself.",
  ref="DESIGN 6/C18"),
}
na_reason={}
checks=[]
for p in props:
    if p in claims:
        c=claims[p]
        checks.append({"property_id":p,"quick_cmd":f"/verif/check.sh {p} quick","thorough_cmd":f"/verif/check.sh {p} thorough","evidence_file":f"/verif/evidence/{p}.json",
          "replay_cmd_template":"cat {path}","engine":"govc","level_claimed":{"category":"proof","text":c['text'],"design_ref":c['ref']},"level_note":c['note'],"technique":TECH})
m={"version":1,
"setup_cmd":"cd /verif && . ./env.sh && mkdir -p bin && cd govc && go build -o /verif/bin/govc .",
"hooks":{"guard":"verif","enable":"go build -tags verif (contract files zz_contracts_verif.go are comment-only and compiled only with the tag)","baseline_off_cmd":"cd /repo && go test -vet=off -count=1 -timeout 25m ./...","source_commits":[],"add_only":True},
"engines":[{"name":"govc","path":"/verif/govc","serves_properties":sorted(claims),"kind_free_text":"own VC generator over go/ssa (NaiveForm) for contracts kept in /repo/<pkg>/zz_contracts_verif.go; obligations discharged by z3 4.8.12 / z3 5.1.0 / cvc5 1.0"}],
"checks":checks,
"not_applicable":[{"property_id":p,"reason":na_reason.get(p,"check not built yet (build in progress; see DESIGN.md section 12 for build order)")} for p in props if p not in claims]}
import subprocess
m["hooks"]["source_commits"]=subprocess.check_output(["git","-C","/repo","log","--format=%H","--grep=^verif hooks"],text=True).split()
json.dump(m,open('/verif/MANIFEST.json','w'),indent=1)
print("claims:",sorted(claims))
