#!/usr/bin/env python3
# Regenerates MANIFEST.json from the claims table below (kept in one place so claims and N/A stay in sync).
import json
props=[json.loads(l)['id'] for l in open('/verif/properties.jsonl')]
TECH="contract-based deductive verification: contracts in /repo/<pkg>/zz_contracts_verif.go, VCs generated from go/ssa of the current tree by govc, discharged by z3/z3-new/cvc5"
claims={
 "C03": dict(
  text="Narrow: the adapter layer around capture results is proved for all inputs: onepass.SearchAt re-bases every slot by start (unset slots stay -1, all within [start,len]), Transition.UpdateSlots/applyMatchSlots only write pos into masked slots, SlotTable Get/Set/Copy/Reset/ResetState/ForState (table view, reset => all -1). Which iteration or branch a group reports is decided inside PikeVM / the one-pass builder and is NOT verified.",
  note="Assumed: (*onepass.DFA).Search result shape; PikeVM and one-pass construction (no contract within reach expresses capture semantics short of a formal regex semantics).",
  ref="DESIGN 6/C03"),
 "C04": dict(
  text="Engine.Count and Engine.findAllIndicesLoop are proved, for every haystack, limit n and mode, to produce exactly the count of stdlib's allMatches loop (recursive spec cnt over uninterpreted reference-match functions, UTF-8 rune width included), every emitted span to be the reference match at its own start, ordered and non-overlapping, buffer aliasing as documented; advancePastEmpty equals stdlib's step width. Relative to the assumed contract of the strategy dispatcher.",
  note="Assumed: findIndicesAtWithState / FindIndices / lazy DFA SearchAt+SearchReverse return the reference match (uninterpreted refFound/refStart/refEnd with axioms refRange, refResume, refResumeNone); engine invariant dfaLink/anchoredLink. The remaining enumeration loops in regex.go (iterators, FindAllSubmatch, AppendAllIndex dst handling) are not yet under contract.",
  ref="DESIGN 6/C04"),
 "C05": dict(
  text="Narrow: every loop of every function under contract carries a decreases measure that is proved non-negative and strictly decreasing (termination of the loop), which bounds the iterations of the simd kernels, Memmem candidate loops (searchStart strictly increases), enumeration loops (pos strictly increases), cache/table maintenance loops. The anti-quadratic guard of the limited reverse scan is proved: (*lazy.DFA).SearchReverseLimited never reads a byte below max(start, minStart) (work-bound loop invariant), which is what keeps the reverse scans of successive suffix candidates disjoint. No constant K over all patterns is derived and recursion depth/cost is not bounded.",
  note="Per-call cost of PikeVM, lazy DFA, backtracker recursion and compile time are not decided by this check; map-iteration loops carry no measure.",
  ref="DESIGN 6/C05"),
 "C06": dict(
  text="Frame/ownership discipline decided for every exported search, enumeration and replace method of Regex and Engine (57 entry points, enumerated from the types): a bottom-up modifies-summary over the SSA call graph (RTA-resolved interface calls, field-sensitive access paths) shows which memory each entry point writes; writes must be atomic, to freshly allocated memory, or to state handed out by sync.Pool.Get / atomic.Pointer.Swap. 15 entry points are clean; the others write 11 shared objects without synchronisation - all listed as open known findings (5 earlier ones disappeared with the repair of the lazy DFA's reverse fallback) (shared PikeVM instances, backtracker internalState, composite scratch), one of them confirmed under go test -race. Any other unsynchronised write to shared or input memory is reported with its call chain.",
  note="Decides the ownership discipline, not interleavings: linearizability of sync.Pool / sync/atomic is assumed; 'same result as alone' additionally rests on C13. User callbacks and dynamic function values are outside the contract; unsafe/reflect aliasing is not followed; paths are index-insensitive. This check is the govc frame engine (static frame inference), not an SMT discharge.",
  ref="DESIGN 4, 6/C06"),
 "C07": dict(
  text="For every function under any contract (simd kernels and wrappers, Memmem family, sparse set, backtracker incl. the recursive explorers, slot table, lazy-DFA cache and state-ID algebra, onepass transition/slots, search-state recycling, enumeration loops): every index, slice, nil-dereference, division and signed-overflow obligation is discharged for all inputs (zero annotations needed for these), explicit panics are unreachable, loops terminate, reported spans satisfy at<=start<=end<=len and buffers are only written inside the declared frame.",
  note="Assumed: trusted leaf contracts (assembly kernels, PikeVM, lazy DFA search loops, dispatcher), stdlib specs, len<=2^47/2^48 size bounds written as preconditions, (*NFA).State modelled as an opaque immutable object. Compile, regex.go adapters and the assembly are not covered yet.",
  ref="DESIGN 6/C07"),
 "C08": dict(
  text="Proved for all inputs: extractTemplateRef implements regexp's template grammar ($name / ${name}: name = longest run of letters/digits/_, closing brace required, group number = decimal value of an all-digit name without leading zero, position of the rest); expand appends to dst without touching its prefix, stays inside src for every group the match vector describes, never writes outside dst; Split: n==0 -> nil, at most n pieces, n==1 -> the whole string, empty input rule, every piece is an in-order, non-overlapping substring of s; advancePastEmpty equals regexp's step over an empty match.",
  note="Not yet under contract: the five ReplaceAll* loops (driven by FindIndicesAt/FindSubmatchAt), the byte-for-byte output of expand as a sequence (only its structure is proved), named-group lookup order. Assumed: strings.Cut, utf8.DecodeRuneInString, unicode.IsLetter/IsDigit specs, FindAllStringIndex shape.",
  ref="DESIGN 6/C08"),
 "C09": dict(
  text="Proved for all inputs: QuoteMeta copies every byte and inserts a backslash exactly before the 14 characters regexp.QuoteMeta escapes (output length and every output position, via a recursive count spec), isSpecial; Compile/CompilePOSIX return a usable Regex exactly when the Perl (flags 212) / POSIX (flags 0) parser accepts the pattern, CompilePOSIX and Longest switch both the Regex and its engine to leftmost-longest.",
  note="Assumed: regexp/syntax.Parse is the parser regexp uses (same package); meta.Compile/CompileRegexp shape. Not decided: error text equality, LiteralPrefix, SubexpNames/NumSubexp, MarshalText/UnmarshalText, Copy. Open known finding: default MaxRecursionDepth 100 rejects patterns nested deeper than 100 that regexp accepts (pinned by an existing test).",
  ref="DESIGN 6/C09"),
 "C10": dict(
  text="Narrow: getSearchState is proved to copy the engine's longest flag into the owned backtracker state; Count/findAllIndicesLoop are proved against the reference in the engine's current mode (which exposed and led to the fix of the leftmost-first DFA shortcut in longest mode).",
  note="Assumed: leaf engines honour the mode (PikeVM.SetLongest, backtracker longest variant, dispatcher contract). Regex.Longest/Copy/CompilePOSIX not yet under contract.",
  ref="DESIGN 6/C10"),
 "C11": dict(
  text="Narrow: Count and findAllIndicesLoop are proved against the same recursive specification, hence len(FindAllIndicesStreaming result) == Count for the loop strategy, for all inputs.",
  note="The adapters in regex.go and meta/find.go are not yet under contract; dispatcher contracts assumed.",
  ref="DESIGN 6/C11"),
 "C12": dict(
  text="Narrow: every simd dispatch wrapper is proved equal to its scalar definition with the CPU-feature flag hasAVX2 as a free boolean, i.e. for both settings.",
  note="Config validation, strategy selection and the meta dispatchers are not covered here; assembly kernels are trusted contracts.",
  ref="DESIGN 6/C12"),
 "C13": dict(
  text="Every recycled per-search structure under contract is proved to behave as a function of its abstract view, and the view after reset/clear is the empty view whatever the stale contents: sparse set (Clear/Insert/Contains/Remove), backtracker visited table (generation stamps incl. uint16 wrap, stamps<=generation over the whole capacity, shouldVisit, the per-start generation bump, the recursive explorers preserve the invariant), lazy-DFA cache (Clear/ClearKeepMemory/Reset leave no readable transition, Insert hands out all-invalid rows, SetFlatTransition frame), slot table, onepass cache, SearchState.reset, getSearchState/putSearchState.",
  note="Assumed: determinism of PikeVM / DFA search loops given these views; PikeVM scratch clearing; sync.Pool and atomic.Pointer hand-off. Two genuine defects found by these obligations were fixed in /repo (see known_findings.json).",
  ref="DESIGN 6/C13"),
 "C14": dict(
  text="Narrow (support structures only): lazy StateID tag algebra (Offset/With*Tag/Is*Tag, safeOffset), onepass Transition packing (constructors and accessors are mutual inverses for next<=MaxStateID), cache clear protocol and row initialisation, isWordByte/checkLookAssertion safety. The give-up protocol of the lazy DFA searches is under contract as ghost-state postconditions (searchAt, findWithPrefilterAt, SearchAtAnchored, SearchReverseLimited: determinisation failed => the result is the NFA fallback's from the requested start; cache cleared => the search starts over and returns that result; safety obligations of these four loops are not generated). Four genuine small-cache defects found here were fixed (fallback from offset 0, resume-after-clear in six loops, reverse fallback simulating forwards).",
  note="Not applicable part: that PikeVM, backtracker, lazy DFA determinisation/search, one-pass construction and NFA reversal return the reference answer - no contract within reach expresses this without a formal semantics of the compiled NFA.",
  ref="DESIGN 6/C14"),
 "C16": dict(
  text="Every Go-level prefilter Find implementation is proved against the closed form of its literal set for all haystacks and offsets: memchr/memmem/digit prefilters return the smallest occurrence >= start or -1; incomplete and (?m)^ line-anchor wrappers preserve the inner prefilter's interface contract (the wrapper loop never steps over a qualifying candidate); Teddy and FatTeddy: verifyBucket reports only real occurrences lying inside the haystack, the scalar paths (findScalar/findMatchScalar) return exactly the first occurrence of any literal and the span of that literal, the SIMD-assisted Find/FindMatch report only real occurrences with end = start+len(literal) <= len(haystack).",
  note="Assumed: findSIMD (assembly) shape contract - 'never skips' for the vector path of Teddy rests on it; external Aho-Corasick automaton; Tracker.checkEffectiveness (floats). 'Complete => exact span of the originating pattern' needs C17 (not built). Open known finding: Tracker.Find returns -1 when inactive.",
  ref="DESIGN 6/C16"),
 "C18": dict(
  text="Every Go-level byte-search primitive of package simd (SWAR kernels memchr/2/3/Pair/isASCII, scalar class/digit/table kernels, dispatch wrappers for hasAVX2 true and false, Memmem family, SelectRareBytes) is proved equal to its scalar definition for all haystacks, lengths and needles, with all index/slice/overflow obligations and loop termination; unbounded (loop invariants).",
  note="Assembly kernels (*AVX2) are trusted contracts equal to the scalar definition (not proved; no bounded stand-in registered yet). Trusted: encoding/binary.LittleEndian.Uint64, math/bits.TrailingZeros64, bytes.Equal specs; len<=2^48; govc translation itself.",
  ref="DESIGN 6/C18"),
 "C20": dict(
  text="Proved: BoundedBacktracker.CanHandle/reset keep len(Visited)==numStates*(len+1)<=maxVisitedSize; DFACache.Insert grows the transition table only when MemoryUsage (>=4*len(flatTrans)+8*len(stateList), proved lower bound) is below capacity and by at most two rows, registerState/getState bounds; cache clears drop the table.",
  note="Not decided: allocation counts (allocs/op) - a compiler/runtime quantity no source-level contract observes; heap reachable from a Regex via the frame engine is not built yet. MemoryUsage arithmetic treated as mathematical (opt math_int).",
  ref="DESIGN 6/C20"),
 "C17": dict(
  text="Narrow. Proved for all inputs: the literal-sequence algebra keeps the prefix/suffix guarantee - isPrefix, commonPrefix/commonSuffix, LongestCommonPrefix/Suffix return a prefix (suffix) of every literal; KeepFirstBytes leaves a prefix of every literal and clears Complete exactly on the shortened ones; Clone copies bytes, Complete and the partial-coverage flag; AllComplete, markAllInexact. Extractor limits: a prefix literal shortened to MaxLiteralLen is not Complete; an alternation whose literal list is cut after dedup is flagged partial (ghost: length after Dedup); and meta.CompileRegexp never installs a prefilter built from a partial-coverage set (wiring invariant, verified with every callee as a trusted stub). Four genuine defects found this way were fixed.",
  note="Not under contract: CrossForward, Minimize, Dedup (existential coverage invariants did not discharge; Dedup has an assumed frame contract), the suffix and inner extraction (extractSuffixes has the same truncation defects by inspection - listed in DESIGN S.3, undecided), case-fold expansion, class expansion, the recursive extraction over the syntax tree (needs the language of an arbitrary AST). 'every match starts with one of the literals' for the extractor as a whole is therefore NOT decided. Assumed: []byte(string(runes)) length (rsbLen), sort.Slice not modelled.",
  ref="DESIGN S.2/C17"),
 "C19": dict(
  text="Three fast paths are proved exact on the fragment their applicability test accepts, for every haystack and offset. (1) Character-class repetition: CharClassSearcher.SearchAt/Search/IsMatch return the leftmost maximal run of class bytes of length >= minMatch, and ExtractCharClassRanges accepts only a greedy + of an all-ASCII class. (2) Anchored literal ^prefix.*class+suffix$: MatchAnchoredLiteral returns true exactly when the input splits into prefix, wildcard (no newline unless (?s), at least one whole character for .+), class run and suffix (both directions, existential over the split, opaque witness predicate); DetectAnchoredLiteral accepts exactly concat(anchor, literal*, wildcard, [byte-decidable class +], literal, anchor) with case-sensitive literals and records what the matcher needs (table == class ranges, NotNL flag, UTF-8 of literals in the single-rune and ASCII cases); the engine entry points return [0,len] or nothing; CompileRegexp installs the info whenever the strategy is UseAnchoredLiteral. (3) extraction helpers: encodeRuneToBytes == UTF-8 arithmetic definition, buildCharClassTable, isByteClass. (4) Branch dispatch: BranchDispatcher.Search/IsMatch return exactly the match of the branch selected by the first byte, for dispatchers whose matchers are exact and whose table is consistent (bdOK). (5) Composite searchers: extractSinglePart accepts only greedy repetitions of all-ASCII classes and builds exactly the class table; the composite DFA tries every start position (lemma on the outer loop). (6) isDotStarLiteral (the reverse-suffix shortcut) accepts exactly .*literal. About twenty genuine defects found on the way were fixed (DESIGN S.3, items 10-13, 19, 22).",
  note="Not under contract: the composite matchers' search loops (only applicability and the start-position lemma), NewBranchDispatcher / ExtractFirstBytes (the construction of a consistent dispatcher; repaired after probes), digit-run skipping, the search loops of the reverse-anchored / reverse-suffix / reverse-suffix-set / reverse-inner / multiline searchers (repaired after probes where they disagreed with regexp; DESIGN S.3). Assumed: that the reference semantics of the accepted fragment is alMatch (argument in DESIGN S.2/C19), SelectStrategy's start/end anchoring analysis (\\A and \\z), parser tree invariants (non-nil subtrees, valid runes), bytes.IndexByte, utf8.DecodeRune specs.",
  ref="DESIGN S.2/C19"),
}
na_reason={
 "C01":"not claimed yet: the boolean dispatch layer (meta/ismatch.go) is not under contract; the leaf engines (PikeVM, lazy DFA, backtracker semantics) have no contract within reach. The regex.go Match adapters are proved equal to Engine.IsMatch under C11.",
 "C02":"not claimed yet: the span dispatch layer (meta/find_indices.go) is not under contract (its contract is an assumption of C04/C11); leaf engines out of reach.",
 "C15":"attempted and withdrawn: only Builder.AddByteRange and the 1-byte range are proved; the 2/3/4-byte UTF-8 range functions (shift/mask arithmetic as div/mod plus the builder heap) did not discharge on any installed solver, so no claim is made. Defects seen by probe (4-byte range over-approximation, non-ASCII fold-case literal) are recorded in DESIGN S.3 as undecided by any check.",
}
checks=[]
for p in props:
    if p in claims:
        c=claims[p]
        checks.append({"property_id":p,"quick_cmd":f"/verif/check.sh {p} quick","thorough_cmd":f"/verif/check.sh {p} thorough","evidence_file":f"/verif/evidence/{p}.json",
          "replay_cmd_template":"cat {path}","engine":"govc","level_claimed":{"category":"proof","text":c['text'],"design_ref":c['ref']},"level_note":c['note'],"technique":TECH})
m={"version":1,
"setup_cmd":"cd /verif && . ./env.sh && mkdir -p bin && cd govc && go build -o /verif/bin/govc .",
"hooks":{"guard":"verif","enable":"go build -tags verif (contract files zz_contracts_verif.go are comment-only and compiled only with the tag)","baseline_off_cmd":"cd /repo && go test -vet=off -count=1 -timeout 25m ./...","source_commits":[],"add_only":True},
"engines":[{"name":"govc","path":"/verif/govc","serves_properties":sorted(claims),"kind_free_text":"own VC generator over go/ssa (NaiveForm) for contracts kept in /repo/<pkg>/zz_contracts_verif.go; obligations discharged by z3 4.8.12 / z3 5.1.0 / cvc5 1.0"}],
"checks":checks,
"not_applicable":[{"property_id":p,"reason":na_reason.get(p,"check not built yet (build in progress; see DESIGN.md section 12 for build order)")} for p in props if p not in claims]}
import subprocess
m["hooks"]["source_commits"]=subprocess.check_output(["git","-C","/repo","log","--format=%H","--grep=^verif hooks"],text=True).split()
json.dump(m,open('/verif/MANIFEST.json','w'),indent=1)
print("claims:",sorted(claims))
