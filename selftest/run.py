#!/usr/bin/env python3
"""Self-test of the verifier: applies each mutation to a scratch copy of /repo (outside /repo and /verif),
runs govc on the functions concerned and checks that must-fail cases fail and benign edits stay green."""
import json, os, shutil, subprocess, sys, tempfile
cases = json.load(open('/verif/selftest/cases.json'))
only = sys.argv[1:] 
bad = 0
for c in cases:
    if only and not any(o in c['name'] for o in only):
        continue
    d = tempfile.mkdtemp(prefix='govc_selftest_')
    try:
        files = subprocess.check_output(['git', '-C', '/repo', 'ls-files', '-co', '--exclude-standard'], text=True).split('\n')
        for f in files:
            if not f: continue
            os.makedirs(os.path.join(d, os.path.dirname(f)), exist_ok=True)
            shutil.copy2(os.path.join('/repo', f), os.path.join(d, f))
        p = os.path.join(d, c['file'])
        s = open(p).read()
        if s.count(c['old']) != 1:
            print(f"SELFTEST {c['name']}: STALE (pattern occurs {s.count(c['old'])} times)"); bad += 1; continue
        open(p, 'w').write(s.replace(c['old'], c['new']))
        r = subprocess.run(['go', 'build', './...'], cwd=d, capture_output=True, text=True)
        if r.returncode != 0:
            print(f"SELFTEST {c['name']}: mutation does not compile: {r.stderr[:200]}"); bad += 1; continue
        env = dict(os.environ, GOVC_REPO=d)
        r = subprocess.run(['/verif/bin/govc', 'check', '-func', c['func'], '-no-evidence'], env=env, capture_output=True, text=True)
        failed = r.returncode != 0
        oos = 'OUT-OF-SUBSET' in r.stdout or 'STALE-CONTRACT' in r.stdout
        ok = (failed and not oos) if c['expect'] == 'fail' else (not failed and not oos)
        summary = [l for l in r.stdout.split('\n') if l.startswith('FAILED') or l.startswith('OUT-OF') or l.startswith('VACUOUS')][:2]
        print(f"SELFTEST {c['name']}: expect={c['expect']} got={'fail' if failed else 'pass'} {'OK' if ok else 'WRONG'} {summary}")
        if not ok: bad += 1
    finally:
        shutil.rmtree(d, ignore_errors=True)
print('selftest wrong:', bad)
sys.exit(1 if bad else 0)
