#!/bin/sh
# usage: check.sh <property> <tier>   — runs govc against /repo's current working tree
cd /verif || exit 2
. ./env.sh
if [ ! -x bin/govc ] || [ -n "$(find govc -newer bin/govc -name '*.go' 2>/dev/null | head -1)" ]; then
  (cd govc && go build -o /verif/bin/govc .) || exit 2
fi
if [ "$1" = "C06" ]; then exec ./bin/govc frame -prop C06 -tier "${2:-quick}"; fi
exec ./bin/govc check -prop "$1" -tier "${2:-quick}"
