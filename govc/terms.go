package main

import (
	"fmt"
	"go/types"
	"math/big"
	"strings"
)

type Term struct {
	S    string
	Sort string
}

const (
	SInt  = "Int"
	SBool = "Bool"
)

func bvSort(w int) string { return fmt.Sprintf("(_ BitVec %d)", w) }
func arrSort(idx, el string) string {
	return "(Array " + idx + " " + el + ")"
}
func isBV(s string) bool { return strings.HasPrefix(s, "(_ BitVec") }
func bvWidth(s string) int {
	var w int
	fmt.Sscanf(s, "(_ BitVec %d)", &w)
	return w
}
func isArr(s string) bool { return strings.HasPrefix(s, "(Array ") }

// arrElem returns the element sort of "(Array I E)".
func arrElem(s string) string {
	// index sort is Int or a BitVec sort
	in := s[len("(Array ") : len(s)-1]
	if strings.HasPrefix(in, "Int ") {
		return in[4:]
	}
	if strings.HasPrefix(in, "(_ BitVec") {
		j := strings.Index(in, ")")
		return strings.TrimSpace(in[j+1:])
	}
	panic("arrElem: " + s)
}
func arrIdx(s string) string {
	in := s[len("(Array ") : len(s)-1]
	if strings.HasPrefix(in, "Int ") {
		return SInt
	}
	j := strings.Index(in, ")")
	return in[:j+1]
}

func app(op string, args ...string) string {
	return "(" + op + " " + strings.Join(args, " ") + ")"
}

func tBool(b bool) Term {
	if b {
		return Term{"true", SBool}
	}
	return Term{"false", SBool}
}

func intLit(v *big.Int) string {
	if v.Sign() < 0 {
		return "(- " + new(big.Int).Neg(v).String() + ")"
	}
	return v.String()
}

func tInt(i int64) Term { return Term{intLit(big.NewInt(i)), SInt} }

func bvLit(v *big.Int, w int) Term {
	m := new(big.Int).Lsh(big.NewInt(1), uint(w))
	x := new(big.Int).Mod(v, m)
	return Term{fmt.Sprintf("(_ bv%s %d)", x.String(), w), bvSort(w)}
}

func litOfSort(v *big.Int, sort string) Term {
	if sort == SInt {
		return Term{intLit(v), SInt}
	}
	if isBV(sort) {
		return bvLit(v, bvWidth(sort))
	}
	panic("litOfSort " + sort)
}

func and(ts ...Term) Term {
	var a []string
	for _, t := range ts {
		if t.S == "true" {
			continue
		}
		if t.S == "false" {
			return tBool(false)
		}
		a = append(a, t.S)
	}
	if len(a) == 0 {
		return tBool(true)
	}
	if len(a) == 1 {
		return Term{a[0], SBool}
	}
	return Term{app("and", a...), SBool}
}
func or(ts ...Term) Term {
	var a []string
	for _, t := range ts {
		if t.S == "false" {
			continue
		}
		if t.S == "true" {
			return tBool(true)
		}
		a = append(a, t.S)
	}
	if len(a) == 0 {
		return tBool(false)
	}
	if len(a) == 1 {
		return Term{a[0], SBool}
	}
	return Term{app("or", a...), SBool}
}
func not(t Term) Term {
	if t.S == "true" {
		return tBool(false)
	}
	if t.S == "false" {
		return tBool(true)
	}
	return Term{app("not", t.S), SBool}
}
func implies(a, b Term) Term {
	if a.S == "true" {
		return b
	}
	if b.S == "true" {
		return b
	}
	return Term{app("=>", a.S, b.S), SBool}
}
func eq(a, b Term) Term {
	if a.S == b.S {
		return tBool(true)
	}
	return Term{app("=", a.S, b.S), SBool}
}
func ite(c, a, b Term) Term {
	if c.S == "true" {
		return a
	}
	if c.S == "false" {
		return b
	}
	if a.S == b.S {
		return a
	}
	return Term{app("ite", c.S, a.S, b.S), a.Sort}
}
func sel(a, i Term) Term { return Term{app("select", a.S, i.S), arrElem(a.Sort)} }
func sto(a, i, v Term) Term {
	return Term{app("store", a.S, i.S, v.S), a.Sort}
}

// ---- Go integer types ----

type Mode int

const (
	MInt Mode = iota
	MMixed
	MBV
)

func parseMode(s string) Mode {
	switch s {
	case "mixed":
		return MMixed
	case "bv":
		return MBV
	}
	return MInt
}

type IntInfo struct {
	Bits   int
	Signed bool
}

func intInfo(t types.Type) (IntInfo, bool) {
	b, ok := t.Underlying().(*types.Basic)
	if !ok {
		return IntInfo{}, false
	}
	switch b.Kind() {
	case types.Int, types.Int64:
		return IntInfo{64, true}, true
	case types.Int32:
		return IntInfo{32, true}, true
	case types.Int16:
		return IntInfo{16, true}, true
	case types.Int8:
		return IntInfo{8, true}, true
	case types.Uint, types.Uint64, types.Uintptr:
		return IntInfo{64, false}, true
	case types.Uint32:
		return IntInfo{32, false}, true
	case types.Uint16:
		return IntInfo{16, false}, true
	case types.Uint8:
		return IntInfo{8, false}, true
	case types.UntypedInt, types.UntypedRune:
		return IntInfo{64, true}, true
	}
	return IntInfo{}, false
}

func (m Mode) intSort(ii IntInfo) string {
	switch m {
	case MInt:
		return SInt
	case MMixed:
		if ii.Signed {
			return SInt
		}
		return bvSort(ii.Bits)
	default:
		return bvSort(ii.Bits)
	}
}

func pow2(n int) *big.Int { return new(big.Int).Lsh(big.NewInt(1), uint(n)) }

func (ii IntInfo) min() *big.Int {
	if !ii.Signed {
		return big.NewInt(0)
	}
	return new(big.Int).Neg(pow2(ii.Bits - 1))
}
func (ii IntInfo) max() *big.Int {
	if !ii.Signed {
		return new(big.Int).Sub(pow2(ii.Bits), big.NewInt(1))
	}
	return new(big.Int).Sub(pow2(ii.Bits-1), big.NewInt(1))
}

// rangeFact: for Int-sorted representation of a fixed width integer.
func rangeFact(t Term, ii IntInfo) Term {
	if t.Sort != SInt {
		return tBool(true)
	}
	return Term{app("and", app("<=", intLit(ii.min()), t.S), app("<=", t.S, intLit(ii.max()))), SBool}
}

// wrapInt wraps a mathematical integer term into the range of ii (Go conversion / unsigned arithmetic).
func wrapInt(t Term, ii IntInfo) Term {
	m := pow2(ii.Bits).String()
	if !ii.Signed {
		return Term{app("mod", t.S, m), SInt}
	}
	h := pow2(ii.Bits - 1).String()
	return Term{app("-", app("mod", app("+", t.S, h), m), h), SInt}
}

// convertInt converts integer term t of Go int type `from` to `to` under the sorts chosen by the mode.
func convertInt(t Term, from, to IntInfo, toSort string) Term {
	fs := t.Sort
	switch {
	case fs == SInt && toSort == SInt:
		// widening that preserves the value?
		if from.min().Cmp(to.min()) >= 0 && from.max().Cmp(to.max()) <= 0 {
			return t
		}
		return wrapInt(t, to)
	case isBV(fs) && isBV(toSort):
		fw, tw := bvWidth(fs), bvWidth(toSort)
		switch {
		case fw == tw:
			return Term{t.S, toSort}
		case fw > tw:
			return Term{app(fmt.Sprintf("(_ extract %d 0)", tw-1), t.S), toSort}
		default:
			if from.Signed {
				return Term{app(fmt.Sprintf("(_ sign_extend %d)", tw-fw), t.S), toSort}
			}
			return Term{app(fmt.Sprintf("(_ zero_extend %d)", tw-fw), t.S), toSort}
		}
	case isBV(fs) && toSort == SInt:
		n := Term{app("bv2nat", t.S), SInt}
		if from.Signed {
			w := bvWidth(fs)
			n = Term{app("ite", app("bvslt", t.S, bvLit(big.NewInt(0), w).S), app("-", n.S, pow2(w).String()), n.S), SInt}
		}
		// n is in from's range; convert to `to`'s range
		if from.min().Cmp(to.min()) >= 0 && from.max().Cmp(to.max()) <= 0 {
			return n
		}
		return wrapInt(n, to)
	case fs == SInt && isBV(toSort):
		return Term{app(fmt.Sprintf("(_ int2bv %d)", bvWidth(toSort)), t.S), toSort}
	}
	panic("convertInt " + fs + " -> " + toSort)
}

func smtName(s string) string {
	// quoted symbol; strip forbidden characters
	s = strings.ReplaceAll(s, "|", "!")
	s = strings.ReplaceAll(s, "\\", "!")
	return "|" + s + "|"
}
