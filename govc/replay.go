package main

// Replay: turn the solver's counterexample into inputs for the real function, run it through `go test -overlay`
// (nothing is written under the repository) and evaluate the violated contract clause on the real result.

import (
	"bytes"
	"encoding/json"
	"fmt"
	"go/types"
	"math/big"
	"os"
	"os/exec"
	"path/filepath"
	"sort"
	"strings"
	"time"
)

const replayElems = 16 // slice elements extracted per slice; the model is searched with cap <= replayElems first

type inNode struct {
	T      types.Type
	Terms  []Term    // scalar comps (for scalars) / slice header (base,off,len,cap) / ref
	Fields []*inNode // struct fields or elements
	Names  []string
	Elems  [][]*inNode // slice elements: per index the element node
	Vals   []*big.Int
	BoolV  []bool
}

type replayGen struct {
	g       *Gen
	terms   []string
	tset    map[string]bool
	vals    map[string]string
	imports map[string]string
	pkg     *types.Package
	ptrVars map[string]string
	decls   []string
	setup   []string
	nvar    int
	maxLine int
	hdrs    [][]Term
	maxCap  int64
	ints    map[int64]bool
}

func (r *replayGen) want(t Term) {
	if !r.tset[t.S] {
		r.tset[t.S] = true
		r.terms = append(r.terms, t.S)
	}
}

func (r *replayGen) famInit(fam string) (Term, bool) {
	g := r.g
	if !g.declFam[fam] || g.famDeclLine[fam] >= r.maxLine {
		return Term{}, false
	}
	return Term{smtName(fam + "@0"), g.famSort[fam]}, true
}

// collect the terms whose model values describe the value v of type t (entry state)
func (r *replayGen) collect(t types.Type, comps []Term, depth int) {
	g := r.g
	switch u := t.Underlying().(type) {
	case *types.Basic:
		for _, c := range comps {
			r.want(c)
		}
		if isString(t) {
			r.collectElems(types.Typ[types.Uint8], comps[0], comps[1], depth)
		}
	case *types.Pointer:
		r.want(comps[0])
		if depth <= 0 {
			return
		}
		if st, ok := u.Elem().Underlying().(*types.Struct); ok {
			off := 0
			lay := g.layout(u.Elem())
			for i := 0; i < st.NumFields(); i++ {
				n := len(g.layout(st.Field(i).Type()))
				var fc []Term
				okAll := true
				for _, c := range lay[off : off+n] {
					f, ok := r.famInit(heapFam(u.Elem()) + c.Path)
					if !ok {
						okAll = false
						break
					}
					fc = append(fc, sel(f, comps[0]))
				}
				if okAll {
					r.collect(st.Field(i).Type(), fc, depth-1)
				}
				off += n
			}
		} else if _, ok := u.Elem().Underlying().(*types.Array); ok {
			lay := g.layout(u.Elem())
			var fc []Term
			for _, c := range lay {
				f, ok := r.famInit(heapFam(u.Elem()) + c.Path)
				if !ok {
					return
				}
				fc = append(fc, sel(f, comps[0]))
			}
			r.collect(u.Elem(), fc, depth-1)
		}
	case *types.Slice:
		for _, c := range comps {
			r.want(c)
		}
		r.hdrs = append(r.hdrs, comps)
		r.collectElems(u.Elem(), comps[0], comps[1], depth)
	case *types.Struct:
		off := 0
		for i := 0; i < u.NumFields(); i++ {
			n := len(g.layout(u.Field(i).Type()))
			r.collect(u.Field(i).Type(), comps[off:off+n], depth)
			off += n
		}
	case *types.Array:
		if u.Len() > 256 {
			return
		}
		for i := int64(0); i < u.Len(); i++ {
			var ec []Term
			for _, c := range comps {
				ec = append(ec, sel(c, litOfSort(bigInt(i), g.intRep())))
			}
			r.collect(u.Elem(), ec, depth)
		}
	default:
		for _, c := range comps {
			r.want(c)
		}
	}
}

func (r *replayGen) collectElems(et types.Type, base, off Term, depth int) {
	g := r.g
	lay := g.layout(et)
	for i := 0; i < replayElems; i++ {
		var ec []Term
		for _, c := range lay {
			f, ok := r.famInit(elemFam(et) + c.Path)
			if !ok {
				return
			}
			ec = append(ec, sel(sel(f, base), g.addI(off, litOfSort(bigInt(int64(i)), g.intRep()))))
		}
		if _, isPtr := et.Underlying().(*types.Pointer); isPtr && depth <= 1 {
			continue
		}
		r.collect(et, ec, depth-1)
	}
}

// ---- model values ----

func parseValue(s string) (*big.Int, bool, bool) { // value, isBool, ok
	s = strings.TrimSpace(s)
	switch s {
	case "true":
		return big.NewInt(1), true, true
	case "false":
		return big.NewInt(0), true, true
	}
	if strings.HasPrefix(s, "#x") {
		v, ok := new(big.Int).SetString(s[2:], 16)
		return v, false, ok
	}
	if strings.HasPrefix(s, "#b") {
		v, ok := new(big.Int).SetString(s[2:], 2)
		return v, false, ok
	}
	if strings.HasPrefix(s, "(_ bv") {
		f := strings.Fields(s[5:])
		v, ok := new(big.Int).SetString(f[0], 10)
		return v, false, ok
	}
	if v, ok := parseIntLit(s); ok {
		return v, false, true
	}
	if strings.HasPrefix(s, "(-") {
		in := strings.TrimSpace(strings.TrimSuffix(strings.TrimPrefix(s, "(-"), ")"))
		if v, ok := new(big.Int).SetString(in, 10); ok {
			return v.Neg(v), false, true
		}
	}
	return nil, false, false
}

func (r *replayGen) val(t Term) (*big.Int, bool) {
	s, ok := r.vals[t.S]
	if !ok {
		return nil, false
	}
	v, _, ok := parseValue(s)
	return v, ok
}

func (r *replayGen) ival(t Term) int64 {
	v, ok := r.val(t)
	if !ok || !v.IsInt64() {
		return 0
	}
	return v.Int64()
}

// ---- Go value construction ----

func (r *replayGen) typeStr(t types.Type) string {
	return types.TypeString(t, func(p *types.Package) string {
		if p == r.pkg {
			return ""
		}
		r.imports[p.Path()] = p.Name()
		return p.Name()
	})
}

func (r *replayGen) nameable(t types.Type) bool {
	ok := true
	var walk func(t types.Type)
	seen := map[types.Type]bool{}
	walk = func(t types.Type) {
		if seen[t] {
			return
		}
		seen[t] = true
		switch u := t.(type) {
		case *types.Named:
			if o := u.Obj(); o.Pkg() != nil && o.Pkg() != r.pkg && !o.Exported() {
				ok = false
			}
			if o := u.Obj(); o.Pkg() != nil && strings.Contains(o.Pkg().Path(), "/internal/") && o.Pkg() != r.pkg {
				// internal packages of the same module are importable from within the module
			}
		case *types.Pointer:
			walk(u.Elem())
		case *types.Slice:
			walk(u.Elem())
		case *types.Array:
			walk(u.Elem())
		}
	}
	walk(t)
	return ok
}

func (r *replayGen) scalarLit(t types.Type, c Term) string {
	v, ok := r.val(c)
	if !ok {
		v = big.NewInt(0)
	}
	b, isBasic := t.Underlying().(*types.Basic)
	if isBasic && b.Info()&types.IsBoolean != 0 {
		if s := r.vals[c.S]; s == "true" {
			return r.typeStr(t) + "(true)"
		}
		return r.typeStr(t) + "(false)"
	}
	if ii, ok := intInfo(t); ok {
		// wrap into the type's range (BV models are unsigned)
		if v.Cmp(ii.max()) > 0 || v.Cmp(ii.min()) < 0 {
			m := pow2(ii.Bits)
			v = new(big.Int).Mod(v, m)
			if ii.Signed && v.Cmp(ii.max()) > 0 {
				v.Sub(v, m)
			}
		}
		if v.IsInt64() {
			r.ints[v.Int64()] = true
		}
		return fmt.Sprintf("%s(%s)", r.typeStr(t), v.String())
	}
	return ""
}

// build returns a Go expression for the value; statements needed to fill pointees are appended to r.setup
func (r *replayGen) build(t types.Type, comps []Term, depth int) string {
	g := r.g
	switch u := t.Underlying().(type) {
	case *types.Basic:
		if isString(t) {
			n := r.ival(comps[2])
			if n > replayElems {
				n = replayElems
			}
			var bs []string
			for i := int64(0); i < n; i++ {
				f, ok := r.famInit(elemFam(types.Typ[types.Uint8]))
				b := "0"
				if ok {
					if v, ok := r.val(sel(sel(f, comps[0]), g.addI(comps[1], litOfSort(bigInt(i), g.intRep())))); ok {
						b = v.String()
					}
				}
				bs = append(bs, b)
			}
			return fmt.Sprintf("%s([]byte{%s})", r.typeStr(t), strings.Join(bs, ", "))
		}
		if s := r.scalarLit(t, comps[0]); s != "" {
			return s
		}
		return "*new(" + r.typeStr(t) + ")"
	case *types.Pointer:
		ref := r.ival(comps[0])
		if ref == 0 || depth <= 0 || !r.nameable(u.Elem()) {
			return "nil"
		}
		key := fmt.Sprintf("%s@%d", typeKey(u.Elem()), ref)
		if v, ok := r.ptrVars[key]; ok {
			return v
		}
		r.nvar++
		name := fmt.Sprintf("gvp%d", r.nvar)
		r.ptrVars[key] = name
		r.decls = append(r.decls, fmt.Sprintf("%s := new(%s)", name, r.typeStr(u.Elem())))
		if st, ok := u.Elem().Underlying().(*types.Struct); ok {
			off := 0
			lay := g.layout(u.Elem())
			for i := 0; i < st.NumFields(); i++ {
				n := len(g.layout(st.Field(i).Type()))
				var fc []Term
				okAll := true
				for _, c := range lay[off : off+n] {
					f, ok := r.famInit(heapFam(u.Elem()) + c.Path)
					if !ok {
						okAll = false
						break
					}
					fc = append(fc, sel(f, comps[0]))
				}
				off += n
				if !okAll || !r.nameable(st.Field(i).Type()) {
					continue
				}
				switch st.Field(i).Type().Underlying().(type) {
				case *types.Interface, *types.Map, *types.Signature, *types.Chan:
					continue
				}
				val := r.build(st.Field(i).Type(), fc, depth-1)
				r.setup = append(r.setup, fmt.Sprintf("gvSetFld(%s, %q, %s)", name, st.Field(i).Name(), val))
			}
		} else {
			lay := g.layout(u.Elem())
			var fc []Term
			okAll := true
			for _, c := range lay {
				f, ok := r.famInit(heapFam(u.Elem()) + c.Path)
				if !ok {
					okAll = false
					break
				}
				fc = append(fc, sel(f, comps[0]))
			}
			if okAll {
				r.setup = append(r.setup, fmt.Sprintf("*%s = %s", name, r.build(u.Elem(), fc, depth-1)))
			}
		}
		return name
	case *types.Slice:
		base, ln, cp := r.ival(comps[0]), r.ival(comps[2]), r.ival(comps[3])
		if base == 0 && cp == 0 {
			return "nil"
		}
		if cp > 1<<20 || ln > cp || ln < 0 {
			panic(OOS{"model slice too large to replay"})
		}
		if cp > r.maxCap {
			r.maxCap = cp
		}
		r.nvar++
		name := fmt.Sprintf("gvs%d", r.nvar)
		key := fmt.Sprintf("slice:%s@%d", typeKey(u.Elem()), base)
		if prev, ok := r.ptrVars[key]; ok {
			// same backing array: reslice the first one (offsets relative to it are not tracked: use as is)
			return fmt.Sprintf("%s[:%d:%d]", prev+"full", ln, cp)
		}
		r.ptrVars[key] = name
		r.decls = append(r.decls, fmt.Sprintf("%sfull := make(%s, %d)", name, r.typeStr(t), cp))
		r.decls = append(r.decls, fmt.Sprintf("_ = %sfull", name))
		lay := g.layout(u.Elem())
		for i := int64(0); i < cp && i < replayElems; i++ {
			var ec []Term
			okAll := true
			for _, c := range lay {
				f, ok := r.famInit(elemFam(u.Elem()) + c.Path)
				if !ok {
					okAll = false
					break
				}
				ec = append(ec, sel(sel(f, comps[0]), g.addI(comps[1], litOfSort(bigInt(i), g.intRep()))))
			}
			if !okAll || !r.nameable(u.Elem()) {
				break
			}
			r.setup = append(r.setup, fmt.Sprintf("%sfull[%d] = %s", name, i, r.build(u.Elem(), ec, depth-1)))
		}
		return fmt.Sprintf("%sfull[:%d]", name, ln)
	case *types.Struct:
		if !r.nameable(t) {
			panic(OOS{"unnameable struct type in replay"})
		}
		r.nvar++
		name := fmt.Sprintf("gvv%d", r.nvar)
		r.decls = append(r.decls, fmt.Sprintf("var %s %s", name, r.typeStr(t)))
		off := 0
		for i := 0; i < u.NumFields(); i++ {
			n := len(g.layout(u.Field(i).Type()))
			fc := comps[off : off+n]
			off += n
			switch u.Field(i).Type().Underlying().(type) {
			case *types.Interface, *types.Map, *types.Signature, *types.Chan:
				continue
			}
			if !r.nameable(u.Field(i).Type()) {
				continue
			}
			r.setup = append(r.setup, fmt.Sprintf("gvSetFld(&%s, %q, %s)", name, u.Field(i).Name(), r.build(u.Field(i).Type(), fc, depth)))
		}
		return name
	case *types.Array:
		r.nvar++
		name := fmt.Sprintf("gva%d", r.nvar)
		r.decls = append(r.decls, fmt.Sprintf("var %s %s", name, r.typeStr(t)))
		if u.Len() <= 256 {
			for i := int64(0); i < u.Len(); i++ {
				var ec []Term
				for _, c := range comps {
					ec = append(ec, sel(c, litOfSort(bigInt(i), g.intRep())))
				}
				v := r.build(u.Elem(), ec, depth)
				if strings.HasSuffix(v, "(0)") || strings.HasSuffix(v, "(false)") {
					continue
				}
				r.setup = append(r.setup, fmt.Sprintf("%s[%d] = %s", name, i, v))
			}
		}
		return name
	}
	return "*new(" + r.typeStr(t) + ")"
}

// ---- contract expression -> Go (dynamically typed through `any`) ----

type goEnv struct {
	vars map[string]string
	old  map[string]string
}

func (r *replayGen) goE(e *E, env *goEnv) string {
	bin := func(f string) string {
		return fmt.Sprintf(f, r.goE(e.Args[0], env), r.goE(e.Args[1], env))
	}
	switch e.Op {
	case "lit":
		if !e.Val.IsInt64() {
			panic(OOS{"literal too large for replay"})
		}
		return fmt.Sprintf("any(int64(%s))", e.Val.String())
	case "id":
		switch e.Name {
		case "true", "false":
			return "any(" + e.Name + ")"
		case "nil":
			return "any(gvNil{})"
		}
		if v, ok := env.vars[e.Name]; ok {
			return "any(" + v + ")"
		}
		if r.pkg.Scope().Lookup(e.Name) != nil {
			return "any(" + e.Name + ")"
		}
		panic(OOS{"replay: unknown identifier " + e.Name})
	case "old":
		return r.goE(e.Args[0], &goEnv{vars: mergeEnv(env.vars, env.old), old: env.old})
	case "field":
		return fmt.Sprintf("gvFld(%s, %q)", r.goE(e.Args[0], env), e.Name)
	case "index":
		return bin("gvIdx(%s, %s)")
	case "slice":
		lo, hi, has := "any(int64(0))", "any(int64(0))", "false"
		if e.Args[1] != nil {
			lo = r.goE(e.Args[1], env)
		}
		if e.Args[2] != nil {
			hi, has = r.goE(e.Args[2], env), "true"
		}
		return fmt.Sprintf("gvSlice(%s, %s, %s, %s)", r.goE(e.Args[0], env), lo, hi, has)
	case "un":
		x := r.goE(e.Args[0], env)
		switch e.Name {
		case "!":
			return "any(!gvB(" + x + "))"
		case "-":
			return "any(-gvNum(" + x + "))"
		case "*":
			return "gvDeref(" + x + ")"
		}
	case "bin":
		switch e.Name {
		case "&&":
			return bin("any(gvB(%s) && gvB(%s))")
		case "||":
			return bin("any(gvB(%s) || gvB(%s))")
		case "==>":
			return bin("any(!gvB(%s) || gvB(%s))")
		case "<==>":
			return bin("any(gvB(%s) == gvB(%s))")
		case "==":
			return bin("any(gvEq(%s, %s))")
		case "!=":
			return bin("any(!gvEq(%s, %s))")
		case "<", "<=", ">", ">=":
			return fmt.Sprintf("any(gvNum(%s) %s gvNum(%s))", r.goE(e.Args[0], env), e.Name, r.goE(e.Args[1], env))
		case "+", "-", "*", "&", "|", "^", "<<", ">>", "&^":
			return fmt.Sprintf("any(gvNum(%s) %s gvNum(%s))", r.goE(e.Args[0], env), e.Name, r.goE(e.Args[1], env))
		case "/":
			return bin("any(gvQuo(gvNum(%s), gvNum(%s)))")
		case "%":
			return bin("any(gvRem(gvNum(%s), gvNum(%s)))")
		}
	case "forall", "exists":
		nenv := &goEnv{vars: mergeEnv(env.vars, nil), old: mergeEnv(env.old, nil)}
		var binds []string
		for i, q := range e.Vars {
			r.nvar++
			v := fmt.Sprintf("q%d_%s", r.nvar, q.Name)
			nenv.vars[q.Name] = v
			nenv.old[q.Name] = v
			binds = append(binds, fmt.Sprintf("%s := vs[%d]; _ = %s", v, i, v))
		}
		fn := "gvForall"
		if e.Op == "exists" {
			fn = "gvExists"
		}
		return fmt.Sprintf("any(%s(%d, func(vs []any) bool { %s; return gvB(%s) }))", fn, len(e.Vars), strings.Join(binds, "; "), r.goE(e.Args[0], nenv))
	case "call":
		var args []string
		for _, a := range e.Args {
			args = append(args, r.goE(a, env))
		}
		switch e.Name {
		case "len":
			return "gvLen(" + args[0] + ")"
		case "cap":
			return "gvCap(" + args[0] + ")"
		case "base", "bbase":
			return "gvBase(" + args[0] + ")"
		case "off":
			return "any(int64(0))"
		case "ite":
			return fmt.Sprintf("func() any { if gvB(%s) { return %s }; return %s }()", args[0], args[1], args[2])
		case "min":
			return fmt.Sprintf("any(min(gvNum(%s), gvNum(%s)))", args[0], args[1])
		case "max":
			return fmt.Sprintf("any(max(gvNum(%s), gvNum(%s)))", args[0], args[1])
		case "int", "int64", "uint64", "uint":
			return "any(gvNum(" + args[0] + "))"
		case "byte", "uint8", "uint16", "uint32", "int32", "int16", "int8", "rune":
			return fmt.Sprintf("any(int64(%s(gvNum(%s))))", e.Name, args[0])
		}
		if sf := r.g.p.cs.Specs[e.Name]; sf != nil && sf.Body != nil {
			r.needSpec(sf)
			return fmt.Sprintf("gvSpec_%s(%s)", sf.Name, strings.Join(args, ", "))
		}
		if t := r.g.specTypeByName(e.Name, r.pkg); t != nil && len(args) == 1 {
			return args[0]
		}
		panic(OOS{"replay: cannot evaluate " + e.Name})
	}
	panic(OOS{"replay: cannot compile " + e.String()})
}

func mergeEnv(a, b map[string]string) map[string]string {
	m := map[string]string{}
	for k, v := range a {
		m[k] = v
	}
	for k, v := range b {
		m[k] = v
	}
	return m
}

var specFuncsSrc map[string]string

func (r *replayGen) needSpec(sf *SpecFunc) {
	if _, ok := specFuncsSrc[sf.Name]; ok {
		return
	}
	specFuncsSrc[sf.Name] = "" // break recursion
	env := &goEnv{vars: map[string]string{}, old: map[string]string{}}
	var ps []string
	for _, p := range sf.Params {
		env.vars[p.Name] = "sp_" + p.Name
		env.old[p.Name] = "sp_" + p.Name
		ps = append(ps, "sp_"+p.Name+" any")
	}
	specFuncsSrc[sf.Name] = fmt.Sprintf("func gvSpec_%s(%s) any { return %s }\n", sf.Name, strings.Join(ps, ", "), r.goE(sf.Body, env))
}

// ---- driver ----

type replayOutcome struct {
	Confirmed bool
	Detail    string
	Inputs    map[string]string
	Source    string
	Output    string
}

func replayObligation(p *Prog, fr *FuncResult, o *Obl, dir string) (out replayOutcome) {
	defer func() {
		if e := recover(); e != nil {
			if oo, ok := e.(OOS); ok {
				out.Detail = "replay not possible: " + oo.msg
				return
			}
			out.Detail = fmt.Sprintf("replay generator failed: %v", e)
		}
	}()
	g := fr.Gen
	fn := g.fn
	if fn == nil || fn.Pkg == nil || fn.Parent() != nil {
		return replayOutcome{Detail: "replay not possible: closure or synthetic function"}
	}
	var unbuilt []string
	r := &replayGen{g: g, tset: map[string]bool{}, vals: map[string]string{}, imports: map[string]string{}, pkg: fn.Pkg.Pkg, ptrVars: map[string]string{}, ints: map[int64]bool{}, maxLine: o.Lines}
	specFuncsSrc = map[string]string{}
	for _, prm := range fn.Params {
		r.collect(prm.Type(), g.params[prm.Name()].C, 3)
	}
	// query: obligation query + small-scope constraints + get-value
	base := buildQuery(g, o)
	base = strings.TrimSuffix(strings.TrimSpace(base), "(get-model)")
	base = strings.TrimSuffix(strings.TrimSpace(base), "(check-sat)")
	var small []string
	for _, prm := range fn.Params {
		for i, c := range g.layout(prm.Type()) {
			if strings.HasSuffix(c.Path, "#cap") || (strings.HasSuffix(c.Path, "#len") && isString(prm.Type())) {
				t := g.params[prm.Name()].C[i]
				if t.Sort == SInt {
					small = append(small, fmt.Sprintf("(assert (<= %s %d))", t.S, replayElems))
				}
			}
		}
	}
	small = nil
	var wf []string
	for _, h := range r.hdrs {
		if h[2].Sort != SInt {
			continue
		}
		wf = append(wf, fmt.Sprintf("(assert (and (<= 0 %s) (<= 0 %s) (<= %s %s) (<= 0 %s)))", h[1].S, h[2].S, h[2].S, h[3].S, h[0].S))
		small = append(small, fmt.Sprintf("(assert (<= %s %d))", h[3].S, replayElems))
	}
	getv := "(get-value (" + strings.Join(r.terms, " ") + "))\n"
	var modelOut string
	for _, variant := range []string{strings.Join(small, "\n") + "\n", ""} {
		q := base + "\n" + strings.Join(wf, "\n") + "\n" + variant + "(check-sat)\n" + getv
		f := filepath.Join(dir, "replay_"+sanitizeFile(o.Name)+".smt2")
		os.WriteFile(f, []byte(q), 0o644)
		for _, sv := range []string{"z3-new", "z3", "cvc5"} {
			var cmd *exec.Cmd
			if sv == "cvc5" {
				cmd = exec.Command("cvc5", "--lang=smt2", "--tlimit=20000", f)
			} else {
				cmd = exec.Command(sv, "-T:20", f)
			}
			ob, _ := cmd.CombinedOutput()
			s := string(ob)
			if strings.HasPrefix(strings.TrimSpace(s), "sat") {
				modelOut = s
				break
			}
		}
		if os.Getenv("GOVC_KEEP") == "" {
			os.Remove(f)
		} else {
			os.WriteFile(f+".out", []byte(modelOut), 0o644)
			fmt.Println("replay query kept:", f)
		}
		if modelOut != "" {
			break
		}
	}
	if modelOut == "" {
		return replayOutcome{Detail: "no model available (solver answered unknown/timeout)"}
	}
	// parse ((term value) ...)
	body := modelOut[strings.Index(modelOut, "\n")+1:]
	x := parseSx(strings.TrimSpace(body))
	if x == nil {
		return replayOutcome{Detail: "could not parse model"}
	}
	for _, kv := range x.kids {
		if len(kv.kids) == 2 {
			r.vals[kv.kids[0].String()] = kv.kids[1].String()
		}
	}
	// normalise keys: the solver echoes terms, possibly reformatted; index by our own strings through re-parse
	norm := map[string]string{}
	for k, v := range r.vals {
		norm[strings.Join(strings.Fields(k), " ")] = v
	}
	for _, t := range r.terms {
		if v, ok := norm[strings.Join(strings.Fields(t), " ")]; ok {
			r.vals[t] = v
		}
	}
	// inputs
	env := &goEnv{vars: map[string]string{}, old: map[string]string{}}
	var inputs []string
	var argNames []string
	out.Inputs = map[string]string{}
	for _, prm := range fn.Params {
		v := r.build(prm.Type(), g.params[prm.Name()].C, 3)
		name := "in_" + prm.Name()
		inputs = append(inputs, fmt.Sprintf("var %s %s = %s", name, r.typeStr(prm.Type()), v))
		env.vars[prm.Name()] = name
		env.old[prm.Name()] = name + "_old"
		argNames = append(argNames, name)
		out.Inputs[prm.Name()] = v
	}
	con := fr.Con
	// clauses
	var reqs, enss []string
	for i, c := range con.Requires {
		reqs = append(reqs, fmt.Sprintf("\tif r, ok := gvTry(func() bool { return gvB(%s) }); !ok || !r { fmt.Println(\"GOVC-REPLAY: precondition-not-satisfied %d\"); return }", r.goE(c.Expr, env), i+1))
	}
	sig := fn.Signature
	nres := sig.Results().Len()
	renv := &goEnv{vars: mergeEnv(env.vars, nil), old: env.old}
	var resDecl, resNames []string
	for i := 0; i < nres; i++ {
		rn := fmt.Sprintf("res%d", i)
		resDecl = append(resDecl, fmt.Sprintf("var %s %s", rn, r.typeStr(sig.Results().At(i).Type())))
		resNames = append(resNames, rn)
		renv.vars[fmt.Sprintf("result%d", i)] = rn
		if n := sig.Results().At(i).Name(); n != "" && n != "_" {
			renv.vars[n] = rn
		}
		if nres == 1 {
			renv.vars["result"] = rn
		}
	}
	for i, c := range con.Ensures {
		func() {
			defer func() {
				if e := recover(); e != nil {
					enss = append(enss, fmt.Sprintf("\t// ensures %d not executable: %v", i+1, e))
				}
			}()
			enss = append(enss, fmt.Sprintf("\tif r, ok := gvTry(func() bool { return gvB(%s) }); ok && !r { fmt.Printf(\"GOVC-REPLAY: violated ensures[%d] %%s\\n\", %q); bad = true }", r.goE(c.Expr, renv), i+1, c.Text))
		}()
	}
	// call expression
	var call string
	if sig.Recv() != nil {
		call = fmt.Sprintf("%s.%s(%s)", argNames[0], fn.Name(), strings.Join(argNames[1:], ", "))
	} else {
		call = fmt.Sprintf("%s(%s)", fn.Name(), strings.Join(argNames, ", "))
	}
	if nres > 0 {
		call = strings.Join(resNames, ", ") + " = " + call
	}
	var olds []string
	for _, prm := range fn.Params {
		olds = append(olds, fmt.Sprintf("in_%s_old := gvDeepCopy(in_%s); _ = in_%s_old", prm.Name(), prm.Name(), prm.Name()))
	}
	// quantifier domain
	dom := map[int64]bool{}
	for i := int64(-2); i <= r.maxCap+2 && i < 70; i++ {
		dom[i] = true
	}
	for v := range r.ints {
		for d := int64(-1); d <= 1; d++ {
			dom[v+d] = true
		}
	}
	var ds []int64
	for v := range dom {
		ds = append(ds, v)
	}
	sort.Slice(ds, func(i, j int) bool { return ds[i] < ds[j] })
	if len(ds) > 120 {
		ds = ds[:120]
	}
	var dstr []string
	for _, v := range ds {
		dstr = append(dstr, fmt.Sprint(v))
	}
	var src bytes.Buffer
	fmt.Fprintf(&src, "package %s\n\nimport (\n\t\"fmt\"\n\t\"reflect\"\n\t\"testing\"\n\t\"unsafe\"\n", fn.Pkg.Pkg.Name())
	for path, name := range r.imports {
		fmt.Fprintf(&src, "\t%s %q\n", name, path)
	}
	fmt.Fprintf(&src, ")\n\nvar _ = unsafe.Pointer(nil)\nvar _ = reflect.TypeOf\n\n")
	fmt.Fprintf(&src, "func gvSetFld(p any, name string, val any) {\n\tv := reflect.ValueOf(p).Elem().FieldByName(name)\n\tv = reflect.NewAt(v.Type(), unsafe.Pointer(v.UnsafeAddr())).Elem()\n\tif val == nil { return }\n\tv.Set(reflect.ValueOf(val).Convert(v.Type()))\n}\n\n")
	fmt.Fprintf(&src, "func TestGovcReplay(t *testing.T) {\n\tgvDomain = []int64{%s}\n", strings.Join(dstr, ", "))
	for _, d := range r.decls {
		fmt.Fprintf(&src, "\t%s\n", d)
	}
	for _, s := range r.setup {
		fmt.Fprintf(&src, "\t%s\n", s)
	}
	for _, s := range inputs {
		fmt.Fprintf(&src, "\t%s\n", s)
	}
	for _, s := range reqs {
		fmt.Fprintln(&src, s)
	}
	for _, s := range olds {
		fmt.Fprintf(&src, "\t%s\n", s)
	}
	for _, s := range resDecl {
		fmt.Fprintf(&src, "\t%s\n", s)
	}
	fmt.Fprintf(&src, "\tif p := func() (p any) { defer func() { p = recover() }(); %s; return nil }(); p != nil {\n\t\tfmt.Printf(\"GOVC-REPLAY: panic %%v\\n\", p)\n\t\treturn\n\t}\n", call)
	for i := range resNames {
		fmt.Fprintf(&src, "\t_ = %s\n", resNames[i])
	}
	fmt.Fprintf(&src, "\tbad := false\n")
	for _, s := range enss {
		fmt.Fprintln(&src, s)
	}
	fmt.Fprintf(&src, "\tif !bad { fmt.Println(\"GOVC-REPLAY: holds\") }\n}\n")
	var names []string
	for n := range specFuncsSrc {
		names = append(names, n)
	}
	sort.Strings(names)
	for _, n := range names {
		src.WriteString(specFuncsSrc[n])
	}
	src.WriteString(replayRuntime)
	out.Source = src.String()
	// run through overlay
	testFile := filepath.Join(dir, "zz_govc_replay_"+sanitizeFile(o.Name)+"_test.go")
	os.WriteFile(testFile, src.Bytes(), 0o644)
	pkgDir := filepath.Dir(p.fset.Position(fn.Pos()).Filename)
	virt := filepath.Join(pkgDir, "zz_govc_replay_test.go")
	ov, _ := json.Marshal(map[string]any{"Replace": map[string]string{virt: testFile}})
	ovFile := filepath.Join(dir, "overlay_"+sanitizeFile(o.Name)+".json")
	os.WriteFile(ovFile, ov, 0o644)
	cmd := exec.Command("go", "test", "-overlay", ovFile, "-vet=off", "-count=1", "-v", "-timeout", "60s", "-run", "^TestGovcReplay$", ".")
	cmd.Dir = pkgDir
	cmd.Env = append(os.Environ(), "GOFLAGS=-mod=mod")
	t0 := time.Now()
	ob, _ := cmd.CombinedOutput()
	_ = t0
	out.Output = string(ob)
	for _, l := range strings.Split(out.Output, "\n") {
		if strings.HasPrefix(l, "GOVC-REPLAY: ") {
			msg := strings.TrimPrefix(l, "GOVC-REPLAY: ")
			switch {
			case strings.HasPrefix(msg, "violated"):
				out.Confirmed = true
				out.Detail = msg
				return
			case strings.HasPrefix(msg, "panic"):
				// a run-time panic confirms only the matching safety obligation; for any other obligation it means
				// the reconstructed inputs are incomplete (e.g. an interface or map field left nil): inconclusive
				kind := o.Kind
				if (strings.HasPrefix(kind, "index") && strings.Contains(msg, "index out of range")) ||
					(strings.HasPrefix(kind, "slice") && strings.Contains(msg, "slice bounds out of range")) ||
					(strings.HasPrefix(kind, "nil") && strings.Contains(msg, "nil pointer dereference") && len(unbuilt) == 0) ||
					(strings.HasPrefix(kind, "div") && strings.Contains(msg, "divide by zero")) ||
					(strings.HasPrefix(kind, "makeslice") && strings.Contains(msg, "makeslice")) {
					out.Confirmed = true
				}
				out.Detail = msg
				if !out.Confirmed {
					out.Detail += " (inconclusive: not the violated obligation's failure mode)"
				}
				return
			default:
				out.Detail = msg
			}
		}
	}
	if out.Detail == "" {
		out.Detail = "replay test did not run: " + firstLine(out.Output)
	}
	return out
}
