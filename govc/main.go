package main

import (
	"encoding/json"
	"flag"
	"fmt"
	"go/types"
	"os"
	"path/filepath"
	"sort"
	"strconv"
	"strings"
	"sync"
	"time"

	"golang.org/x/tools/go/ssa"
)

type FuncResult struct {
	Key      string
	Con      *Contract
	OOS      string
	Obls     []*Obl
	Gen      *Gen
	Trusted  []string
	Assumes  []string
	GenTime  float64
}

func newGen(p *Prog, fn *ssa.Function, con *Contract) *Gen {
	g := &Gen{p: p, fn: fn, con: con, env: map[ssa.Value]*SV{}, layouts: map[string][]Comp{}, famSort: map[string]string{},
		declFam: map[string]bool{}, typeTag: map[string]int{}, counts: map[string]int{}, specDecl: map[string]bool{},
		strConsts: map[string]Val{}, closures: map[*ssa.MakeClosure]*ssa.MakeClosure{}, rangeIters: map[*ssa.Range]Val{},
		pendingHavoc: map[string]bool{}, famLeaf: map[string]IntInfo{}, famDeclLine: map[string]int{}, axDone: map[string]bool{}, specHeap: map[string]*heapParams{}, famRefLeaf: map[string]bool{}, refAxDone: map[string]bool{}, cellAddr: map[*ssa.Alloc]*Addr{}}
	if con != nil {
		g.mode = parseMode(con.Arith)
	}
	return g
}

func verifyFunc(p *Prog, con *Contract) (fr *FuncResult) {
	fr = &FuncResult{Key: con.Key, Con: con}
	fn := p.findFunc(con.Key)
	if fn == nil {
		fr.OOS = "STALE-CONTRACT: function not found"
		return
	}
	g := newGen(p, fn, con)
	fr.Gen = g
	t0 := time.Now()
	defer func() {
		fr.GenTime = time.Since(t0).Seconds()
		if r := recover(); r != nil {
			if o, ok := r.(OOS); ok {
				fr.OOS = o.msg
				if g.curPos.IsValid() {
					fr.OOS += " @" + g.posStr()
				}
				fr.Obls = nil
				return
			}
			panic(r)
		}
	}()
	g.run()
	g.emitAxioms()
	fr.Obls = g.obls
	for k := range g.trusted {
		fr.Trusted = append(fr.Trusted, k)
	}
	sort.Strings(fr.Trusted)
	fr.Assumes = g.assumptions
	return
}

func main() {
	if len(os.Args) < 2 {
		fmt.Println("usage: govc check|list|replay ...")
		os.Exit(2)
	}
	switch os.Args[1] {
	case "check":
		os.Exit(cmdCheck(os.Args[2:]))
	case "list":
		os.Exit(cmdList(os.Args[2:]))
	case "frame":
		os.Exit(cmdFrame(os.Args[2:]))
	default:
		fmt.Println("unknown command")
		os.Exit(2)
	}
}

func cmdList(args []string) int {
	p, err := LoadProg()
	if err != nil {
		fmt.Println(err)
		return 2
	}
	for _, k := range p.cs.Order {
		c := p.cs.Funcs[k]
		fmt.Printf("%s trusted=%v props=%v\n", k, c.Trusted, c.Props)
	}
	return 0
}

func hasProp(c *Contract, prop string) bool {
	for _, p := range c.Props {
		if p == prop {
			return true
		}
	}
	return false
}

func cmdCheck(args []string) int {
	fs := flag.NewFlagSet("check", flag.ExitOnError)
	prop := fs.String("prop", "", "property id")
	tier := fs.String("tier", "quick", "quick|thorough")
	only := fs.String("func", "", "only functions whose key contains this")
	dump := fs.String("dump", "", "directory to keep SMT queries")
	verbose := fs.Bool("v", false, "verbose")
	noEvidence := fs.Bool("no-evidence", false, "")
	fs.Parse(args)
	if t := os.Getenv("VERIF_TIER"); t != "" && *tier == "" {
		*tier = t
	}
	seed := 0
	if s := os.Getenv("VERIF_SEED"); s != "" {
		seed, _ = strconv.Atoi(s)
	}
	t0 := time.Now()
	p, err := LoadProg()
	if err != nil {
		fmt.Println("load failed:", err)
		return 2
	}
	loadT := time.Since(t0).Seconds()
	timeout := 10
	if *tier == "thorough" {
		timeout = 60
	}
	dir := *dump
	if dir == "" {
		dir, _ = os.MkdirTemp("", "govc")
		defer os.RemoveAll(dir)
	} else {
		os.MkdirAll(dir, 0o755)
		os.Setenv("GOVC_KEEP", "1")
	}
	// select functions
	var cons []*Contract
	for _, k := range p.cs.Order {
		c := p.cs.Funcs[k]
		if c.Trusted {
			continue
		}
		if *prop != "" && !hasProp(c, *prop) {
			continue
		}
		if *only != "" {
			if strings.HasSuffix(*only, "$") {
				if !strings.HasSuffix(k, strings.TrimSuffix(*only, "$")) {
					continue
				}
			} else if !strings.Contains(k, *only) {
				continue
			}
		}
		cons = append(cons, c)
	}
	results := make([]*FuncResult, len(cons))
	var wg sync.WaitGroup
	sem := make(chan struct{}, 8)
	for i, c := range cons {
		wg.Add(1)
		go func(i int, c *Contract) {
			defer wg.Done()
			sem <- struct{}{}
			fr := verifyFunc(p, c)
			<-sem
			if os.Getenv("GOVC_TIMING") != "" {
				fmt.Printf("gen %s: %.2fs lines=%d obls=%d\n", shortKey(c.Key), fr.GenTime, func() int { if fr.Gen != nil { return len(fr.Gen.lines) }; return 0 }(), len(fr.Obls))
			}
			results[i] = fr
			// solve obligations
			var ow sync.WaitGroup
			for _, o := range fr.Obls {
				ow.Add(1)
				go func(o *Obl) {
					defer ow.Done()
					q := buildQuery(fr.Gen, o)
					o.Query = ""
					if os.Getenv("GOVC_GENONLY") != "" {
						// debugging aid: write the query, do not solve (used by the determinism self-check)
						os.WriteFile(filepath.Join(dir, sanitizeFile(o.Name)+".smt2"), []byte(q), 0o644)
						o.Status = "skipped"
						return
					}
					prefer := "cvc5"
					if fr.Gen != nil && fr.Gen.mode != MInt {
						prefer = "z3-new"
					}
					var r solveResult
					if o.Expect == "sat" {
						// vacuity guard: only a definite `unsat` is a failure; one solver, short budget
						r = solveCover(q, dir, o.Name)
					} else {
						// opt timeout_factor=N: per-function multiplier of the per-obligation budget (for the few goals that
						// need close to the default budget on an idle machine and must not depend on the load)
						tmo := timeout
						if fr.Con != nil {
							if f, err := strconv.Atoi(fr.Con.Opts["timeout_factor"]); err == nil && f > 1 && f <= 6 {
								tmo = timeout * f
							}
						}
						r = solve(q, dir, o.Name, tmo, *tier == "thorough", prefer)
					}
					o.Status, o.Backend, o.Time, o.Output = r.status, r.backend, r.time, r.output
					if len(q) > 0 {
						o.Model = fmt.Sprintf("%d bytes", len(q))
					}
				}(o)
			}
			ow.Wait()
		}(i, c)
	}
	wg.Wait()
	// second chance for obligations that ran out of time while the machine was saturated: re-run them a few
	// at a time with a larger budget (a timeout under load must not turn into an alarm)
	var retry []struct {
		fr *FuncResult
		o  *Obl
	}
	for _, fr := range results {
		for _, o := range fr.Obls {
			if o.Expect != "sat" && (o.Status == "timeout" || o.Status == "unknown" || o.Status == "error") {
				retry = append(retry, struct {
					fr *FuncResult
					o  *Obl
				}{fr, o})
			}
		}
	}
	if len(retry) > 0 {
		rsem := make(chan struct{}, 4)
		var rw sync.WaitGroup
		for _, x := range retry {
			rw.Add(1)
			go func(fr *FuncResult, o *Obl) {
				defer rw.Done()
				rsem <- struct{}{}
				defer func() { <-rsem }()
				q := buildQuery(fr.Gen, o)
				r := solve(q, dir, o.Name+"-retry", timeout*4, true, "")
				if r.status == "unsat" || r.status == "sat" {
					o.Status, o.Backend, o.Time, o.Output = r.status, r.backend, r.time, r.output
				}
			}(x.fr, x.o)
		}
		rw.Wait()
	}
	rep := report(p, *prop, *tier, seed, results, loadT, time.Since(t0).Seconds(), *verbose, !*noEvidence)
	return rep
}

type evidence struct {
	PropertyID string         `json:"property_id"`
	Tier       string         `json:"tier"`
	Seed       int            `json:"seed"`
	Level      string         `json:"level"`
	Coverage   map[string]any `json:"coverage"`
	Assumptions []string      `json:"assumptions"`
	WallS      float64        `json:"wall_s"`
	Violations int            `json:"violations"`
}

func report(p *Prog, prop, tier string, seed int, results []*FuncResult, loadT, wall float64, verbose bool, writeEv bool) int {
	total, discharged, covers, coversOK := 0, 0, 0, 0
	byBackend := map[string]int{}
	solverTime := 0.0
	var failed []*Obl
	var vacuous []*Obl
	var under, proved, oosList, stale []string
	trusted := map[string]bool{}
	var assumptions []string
	var samples []any
	kinds := map[string]int{}
	frOf := map[*Obl]*FuncResult{}
	for _, fr := range results {
		for _, o := range fr.Obls {
			frOf[o] = fr
		}
	}
	for _, fr := range results {
		under = append(under, shortKey(fr.Key))
		if fr.OOS != "" {
			if strings.HasPrefix(fr.OOS, "STALE-CONTRACT") {
				stale = append(stale, shortKey(fr.Key))
				fmt.Printf("STALE-CONTRACT %s\n", shortKey(fr.Key))
			} else {
				oosList = append(oosList, shortKey(fr.Key)+": "+fr.OOS)
				fmt.Printf("OUT-OF-SUBSET %s: %s\n", shortKey(fr.Key), fr.OOS)
			}
			continue
		}
		ok := true
		// opt dead_returns=N: up to N return statements of the function are known to be dead under its
		// precondition (defensive checks); their reachability guards are not vacuity failures
		deadOK := 0
		if fr.Con != nil {
			deadOK, _ = strconv.Atoi(fr.Con.Opts["dead_returns"])
		}
		// opt dead_loops=N: likewise for loop heads that sit in code the precondition / callee contracts make dead
		deadLoops := 0
		if fr.Con != nil {
			deadLoops, _ = strconv.Atoi(fr.Con.Opts["dead_loops"])
		}
		// back-edge covers: a loop is fine when at least one of its back edges is reachable
		backSat := map[string]bool{}
		for _, o := range fr.Obls {
			if o.Expect == "sat" && strings.HasPrefix(o.Kind, "cover.back") && o.Status != "unsat" {
				backSat[o.Kind] = true
			}
		}
		deadLoopKinds := map[string]bool{}
		deadBackLoops := map[string]bool{}
		deadBackBudget := 0
		if fr.Con != nil {
			deadBackBudget, _ = strconv.Atoi(fr.Con.Opts["dead_loops"])
		}
		for _, o := range fr.Obls {
			solverTime += o.Time
			if o.Expect == "sat" && strings.HasPrefix(o.Kind, "cover.back") {
				covers++
				ord := strings.TrimPrefix(o.Kind, "cover.back")
				if o.Status != "unsat" || backSat[o.Kind] || deadLoopKinds["cover.loop"+ord] {
					coversOK++
				} else if fr.Con != nil && fr.Con.Opts["dead_backedges"] != "" {
					coversOK++
				} else if deadBackBudget > 0 || deadBackLoops[ord] {
					// a loop declared dead (opt dead_loops=N) whose head cover merely timed out: its back edges are
					// still allowed to be unreachable
					if !deadBackLoops[ord] {
						deadBackLoops[ord] = true
						deadBackBudget--
					}
					coversOK++
				} else {
					vacuous = append(vacuous, o)
					ok = false
				}
				continue
			}
			if o.Expect == "sat" {
				covers++
				if o.Status == "unsat" && o.Kind == "cover.return" && deadOK > 0 {
					deadOK--
					coversOK++
				} else if o.Status == "unsat" && strings.HasPrefix(o.Kind, "cover.loop") && deadLoops > 0 {
					deadLoops--
					deadLoopKinds[o.Kind] = true
					if ord := strings.TrimPrefix(o.Kind, "cover.loop"); !deadBackLoops[ord] {
						deadBackLoops[ord] = true
						deadBackBudget--
					}
					coversOK++
				} else if o.Status == "unsat" {
					vacuous = append(vacuous, o)
					ok = false
				} else {
					coversOK++
				}
				continue
			}
			total++
			kinds[o.Kind[:strings.IndexAny(o.Kind+"[", "[")]]++
			if o.Status == "unsat" {
				discharged++
				byBackend[o.Backend]++
				if len(samples) < 6 && (strings.HasPrefix(o.Kind, "ensures") || strings.HasPrefix(o.Kind, "inv")) {
					samples = append(samples, map[string]any{"obligation": o.Name, "clause": o.Text, "backend": o.Backend, "time_s": round3(o.Time), "query": o.Model})
				}
			} else {
				failed = append(failed, o)
				ok = false
			}
			if verbose {
				fmt.Printf("  %-8s %-7s %6.2fs %s  %s\n", o.Status, o.Backend, o.Time, o.Name, o.Text)
			}
		}
		if ok {
			proved = append(proved, shortKey(fr.Key))
		}
		for _, t := range fr.Trusted {
			trusted[t] = true
		}
		assumptions = append(assumptions, fr.Assumes...)
	}
	for _, o := range failed {
		fmt.Printf("FAILED %s [%s] %s (%s) %s\n", o.Name, o.Status, o.Text, o.Pos, firstLine(o.Output))
	}
	for _, o := range vacuous {
		fmt.Printf("VACUOUS %s: %s\n", o.Name, o.Text)
	}
	fmt.Printf("property=%s functions=%d proved=%d out-of-subset=%d obligations=%d discharged=%d covers=%d/%d solver_time=%.1fs wall=%.1fs\n",
		prop, len(results), len(proved), len(oosList), total, discharged, coversOK, covers, solverTime, wall)
	if !writeEv || prop == "" {
		if len(failed)+len(vacuous) > 0 {
			return 1
		}
		return 0
	}
	// known findings / violations
	violations := 0
	kf := loadKnownFindings()
	var kfSeen []string
	os.MkdirAll(filepath.Join(verifDir, "replays", prop), 0o755)
	for _, o := range append(failed, vacuous...) {
		if f := kf.matchClause(prop, o.Name, o.Text); f != nil {
			fmt.Printf("KNOWN-FINDING: property=%s %s %s\n", prop, o.Name, f.What)
			kfSeen = append(kfSeen, o.Name)
			total-- // a listed finding is reported separately and is not part of the proved set
			continue
		}
		violations++
		rp := filepath.Join(verifDir, "replays", prop, sanitizeFile(o.Name)+".json")
		confirmed := writeReplay(p, rp, prop, o, frOf[o])
		suffix := ""
		if !confirmed {
			suffix = " no-failing-input-found"
		}
		fmt.Printf("VIOLATION property=%s replay=%s%s\n", prop, rp, suffix)
	}
	// a function under contract that can no longer be processed (its contract does not fit the code any more, or the
	// code left the verifiable subset) is undecided: silence would be a vacuous pass
	for _, fr := range results {
		if fr.OOS == "" || strings.HasPrefix(fr.OOS, "STALE-CONTRACT") {
			continue
		}
		name := shortKey(fr.Key) + "#verifiable"
		if f := kf.match(prop, name); f != nil {
			fmt.Printf("KNOWN-FINDING: property=%s %s %s\n", prop, name, f.What)
			continue
		}
		violations++
		rp := filepath.Join(verifDir, "replays", prop, sanitizeFile(name)+".json")
		data, _ := json.MarshalIndent(map[string]any{"property": prop, "obligation": name, "reason": fr.OOS,
			"explanation": "the function is under contract but its obligations could not be generated: either the contract no longer matches the code (a local or loop named in an invariant is gone) or the code uses a construct/callee outside the verified subset. Nothing about this function is proved on this tree.", "confirmed_on_real_code": false}, "", " ")
		os.WriteFile(rp, data, 0o644)
		fmt.Printf("VIOLATION property=%s replay=%s no-failing-input-found\n", prop, rp)
	}
	if total == 0 {
		violations++
		rp := filepath.Join(verifDir, "replays", prop, "no-obligations.json")
		os.WriteFile(rp, []byte(`{"obligation":"none","reason":"nothing could be verified: no obligation was generated for this property"}`), 0o644)
		fmt.Printf("VIOLATION property=%s replay=%s no-failing-input-found\n", prop, rp)
	}
	var tb []string
	for t := range trusted {
		tb = append(tb, "trusted contract: "+shortKey(t))
	}
	sort.Strings(tb)
	tb = append(tb, "govc (own SSA->SMT VC generator, go/ssa NaiveForm), go/types, z3 4.8.12, z3 5.1.0, cvc5 1.0")
	assumptions = append(assumptions,
		"len/cap of every slice and string <= 2^48",
		"Int-sorted signed arithmetic is mathematical with an overflow obligation per operation; unsigned arithmetic wraps exactly",
		"scheduling, GC, stack depth and allocation failure are not modelled")
	for _, a := range p.cs.Axioms {
		if !a.Lemma {
			assumptions = append(assumptions, "axiom "+a.Name+": "+a.Text)
		}
	}
	cov := map[string]any{
		"obligations": total, "discharged": discharged,
		"checker_cmd":  fmt.Sprintf("/verif/bin/govc check -prop %s -tier %s", prop, tier),
		"trusted_base": tb,
		"functions_under_contract": under, "functions_proved": proved, "out_of_subset": oosList, "stale_contracts": stale,
		"by_backend": byBackend, "solver_time_s": round3(solverTime), "load_time_s": round3(loadT),
		"obligation_kinds": kinds, "vacuity_guards": map[string]int{"total": covers, "satisfiable_or_unrefuted": coversOK},
		"samples": samples, "known_findings_seen": kfSeen,
	}
	ev := evidence{PropertyID: prop, Tier: tier, Seed: seed, Level: "proof", Coverage: cov, Assumptions: assumptions, WallS: round3(wall), Violations: violations}
	data, _ := json.MarshalIndent(ev, "", " ")
	os.MkdirAll(filepath.Join(verifDir, "evidence"), 0o755)
	os.WriteFile(filepath.Join(verifDir, "evidence", prop+".json"), data, 0o644)
	if violations > 0 {
		return 1
	}
	return 0
}

func round3(f float64) float64 { return float64(int(f*1000)) / 1000 }

func firstLine(s string) string {
	s = strings.TrimSpace(s)
	if i := strings.Index(s, "\n"); i >= 0 {
		s = s[:i]
	}
	if len(s) > 160 {
		s = s[:160]
	}
	return s
}

// ---- known findings ----

type knownFinding struct {
	Property   string `json:"property"`
	Obligation string `json:"obligation"`
	What       string `json:"what"`
	Status     string `json:"status"` // open | fixed
	// Clause (optional): the finding is the failure of this contract clause of the function named in Obligation
	// (text before '#'), at whichever return/iteration ordinal; more stable than the ordinal in Obligation
	Clause string `json:"clause,omitempty"`
}

type knownFindings struct{ list []knownFinding }

func loadKnownFindings() *knownFindings {
	kf := &knownFindings{}
	data, err := os.ReadFile(filepath.Join(verifDir, "known_findings.json"))
	if err != nil {
		return kf
	}
	var doc struct {
		Findings []knownFinding `json:"findings"`
	}
	json.Unmarshal(data, &doc)
	kf.list = doc.Findings
	return kf
}

func (k *knownFindings) match(prop, obl string) *knownFinding {
	return k.matchClause(prop, obl, "")
}

func (k *knownFindings) matchClause(prop, obl, clause string) *knownFinding {
	for i := range k.list {
		f := &k.list[i]
		if f.Status != "open" || f.Property != prop {
			continue
		}
		if f.Obligation == obl {
			return f
		}
		if f.Clause != "" && strings.TrimSpace(strings.SplitN(clause, "  @", 2)[0]) == f.Clause {
			fn := strings.SplitN(f.Obligation, "#", 2)[0]
			kind := strings.SplitN(strings.SplitN(f.Obligation+"#", "#", 3)[1], "[", 2)[0]
			if strings.HasPrefix(obl, fn+"#"+kind+"[") {
				return f
			}
		}
	}
	return nil
}

func writeReplay(p *Prog, path, prop string, o *Obl, fr *FuncResult) bool {
	doc := map[string]any{"property": prop, "obligation": o.Name, "clause": o.Text, "position": o.Pos, "solver_status": o.Status,
		"backend": o.Backend, "solver_output": truncate(o.Output, 1500), "confirmed_on_real_code": false}
	confirmed := false
	if fr != nil && fr.Gen != nil && o.Expect != "sat" {
		dir, _ := os.MkdirTemp("", "govcreplay")
		if os.Getenv("GOVC_KEEP") == "" {
			defer os.RemoveAll(dir)
		}
		out := replayObligation(p, fr, o, dir)
		confirmed = out.Confirmed
		doc["confirmed_on_real_code"] = out.Confirmed
		doc["replay_detail"] = out.Detail
		doc["replay_inputs"] = out.Inputs
		doc["replay_test_output"] = truncate(out.Output, 4000)
		if out.Source != "" {
			src := strings.TrimSuffix(path, ".json") + "_test.go.txt"
			os.WriteFile(src, []byte(out.Source), 0o644)
			doc["replay_test_source"] = src
			doc["how_to_rerun"] = "copy the source to <package dir>/zz_govc_replay_test.go (or use go test -overlay) and run: go test -vet=off -run TestGovcReplay ."
		}
	}
	data, _ := json.MarshalIndent(doc, "", " ")
	os.WriteFile(path, data, 0o644)
	return confirmed
}

func truncate(s string, n int) string {
	if len(s) > n {
		return s[:n] + "...[truncated]"
	}
	return s
}

var _ = types.Typ
