package main

import (
	"fmt"
	"os"
	"runtime/debug"
	"regexp"
	"go/token"
	"go/types"
	"sort"
	"strings"

	"golang.org/x/tools/go/ssa"
)

// ---------- layout of Go values as scalar components ----------

type Comp struct {
	Path string
	Sort string
	GT   types.Type // Go type of the leaf (for range facts), nil for synthetic (#base etc.)
	Kind string     // "int","bool","ref","base","bbase","len","tag","opaque","strbase"
}

type Val struct {
	T types.Type
	C []Term
	// IA: the value is an interior pointer (address of a slice element / field) held by a local; specifications
	// read through it with p.f
	IA *Addr
}

type OOS struct{ msg string } // out-of-subset

func oos(format string, a ...any) {
	if os.Getenv("GOVC_DEBUG") != "" {
		debug.PrintStack()
	}
	panic(OOS{fmt.Sprintf(format, a...)})
}

func (g *Gen) intRep() string { return g.mode.intSort(IntInfo{64, true}) }

func (g *Gen) layout(t types.Type) []Comp {
	key := t.String()
	if l, ok := g.layouts[key]; ok {
		return l
	}
	var out []Comp
	switch u := t.Underlying().(type) {
	case *types.Basic:
		switch {
		case u.Info()&types.IsBoolean != 0:
			out = []Comp{{"", SBool, t, "bool"}}
		case u.Info()&types.IsInteger != 0:
			ii, _ := intInfo(t)
			out = []Comp{{"", g.mode.intSort(ii), t, "int"}}
		case u.Info()&types.IsString != 0:
			out = []Comp{{"#base", SInt, nil, "strbase"}, {"#off", g.intRep(), nil, "len"}, {"#len", g.intRep(), nil, "len"}}
		case u.Kind() == types.UnsafePointer:
			out = []Comp{{"", SInt, nil, "opaque"}}
		case u.Kind() == types.UntypedNil:
			out = []Comp{{"", SInt, nil, "ref"}}
		case u.Info()&types.IsFloat != 0:
			out = []Comp{{"", SInt, nil, "opaque"}} // floats are opaque
		default:
			oos("unsupported basic type %s", t)
		}
	case *types.Pointer:
		out = []Comp{{"", SInt, nil, "ref"}}
	case *types.Slice:
		bk := "base"
		if b, ok := u.Elem().Underlying().(*types.Basic); ok && b.Kind() == types.Uint8 {
			// a []byte may be an (unsafe) view of a string's memory, whose bases are <= 0: no sign assumption
			bk = "bbase"
		}
		out = []Comp{{"#base", SInt, nil, bk}, {"#off", g.intRep(), nil, "len"}, {"#len", g.intRep(), nil, "len"}, {"#cap", g.intRep(), nil, "len"}}
	case *types.Interface:
		out = []Comp{{"#tag", SInt, nil, "tag"}, {"#ref", SInt, nil, "ref"}}
	case *types.Map, *types.Chan, *types.Signature:
		out = []Comp{{"", SInt, nil, "opaque"}}
	case *types.Struct:
		for i := 0; i < u.NumFields(); i++ {
			f := u.Field(i)
			for _, c := range g.layout(f.Type()) {
				out = append(out, Comp{"." + f.Name() + c.Path, c.Sort, c.GT, c.Kind})
			}
		}
	case *types.Array:
		for _, c := range g.layout(u.Elem()) {
			out = append(out, Comp{"[]" + c.Path, arrSort(g.intRep(), c.Sort), c.GT, "arr:" + c.Kind})
		}
	case *types.Tuple:
		for i := 0; i < u.Len(); i++ {
			if b, ok := u.At(i).Type().(*types.Basic); ok && b.Kind() == types.Invalid {
				continue // unused component of a map iterator tuple
			}
			for _, c := range g.layout(u.At(i).Type()) {
				out = append(out, Comp{fmt.Sprintf("#%d%s", i, c.Path), c.Sort, c.GT, c.Kind})
			}
		}
	default:
		oos("unsupported type %s", t)
	}
	g.layouts[key] = out
	return out
}

func zeroOfSort(sort string) Term {
	switch {
	case sort == SInt:
		return tInt(0)
	case sort == SBool:
		return tBool(false)
	case isBV(sort):
		return bvLit(bigZero, bvWidth(sort))
	case isArr(sort):
		return Term{app("(as const "+sort+")", zeroOfSort(arrElem(sort)).S), sort}
	}
	panic("zeroOfSort " + sort)
}

func (g *Gen) zeroVal(t types.Type) Val {
	l := g.layout(t)
	v := Val{T: t}
	for _, c := range l {
		v.C = append(v.C, zeroOfSort(c.Sort))
	}
	return v
}

// sub-value of v (type v.T) for field index i of a struct type
func (g *Gen) fieldOf(v Val, i int) Val {
	st := v.T.Underlying().(*types.Struct)
	off := 0
	for k := 0; k < i; k++ {
		off += len(g.layout(st.Field(k).Type()))
	}
	n := len(g.layout(st.Field(i).Type()))
	return Val{T: st.Field(i).Type(), C: v.C[off : off+n]}
}

// ---------- addresses ----------

const (
	aLocal = iota
	aHeap  // field (path) of a struct object / box identified by Ref
	aElem  // element Idx of the slice backing array Base
	aGlobal
)

type Addr struct {
	K    int
	Al   *ssa.Alloc
	Fam  string // family prefix, e.g. "H:pkg.T", "E:uint16", "G:pkg.v", "B:int"
	Ref  Term
	Idx  Term
	Path string
	AIdx []Term
	T    types.Type
}

type SV struct {
	V Val
	A *Addr
}

// ---------- state ----------

type State struct {
	cells map[*ssa.Alloc][]Term
	heap  map[string]Term
	alloc Term
	// params is set while the body of a declared (opaque) spec function is evaluated: every heap family the body
	// reads becomes a hidden parameter of the SMT function, so that an application sees the heap of its own state
	params *heapParams
	// hv: family-name prefixes havocked by a callee ("modifies family X") in the history of this state. A family
	// under such a prefix that is first touched afterwards must not alias its entry version.
	hv []string
	// gv: current values of the mutable ghosts (`ghost var`); a missing entry means "still the entry value"
	gv map[string]Val
}

type heapParams struct {
	fams  []string
	terms []Term
}

func (s *State) clone() *State {
	n := &State{cells: map[*ssa.Alloc][]Term{}, heap: map[string]Term{}, alloc: s.alloc, params: s.params, hv: append([]string(nil), s.hv...)}
	for k, v := range s.cells {
		n.cells[k] = append([]Term(nil), v...)
	}
	for k, v := range s.heap {
		n.heap[k] = v
	}
	if len(s.gv) > 0 {
		n.gv = map[string]Val{}
		for k, v := range s.gv {
			n.gv[k] = v
		}
	}
	return n
}

// ---------- generator ----------

type Obl struct {
	Name   string
	Kind   string
	Goal   Term
	Reach  Term
	Lines  int // number of prelude lines
	Pos    string
	Expect string // "unsat" (default) or "sat" for vacuity guards
	Text   string
	// filled by solving
	Status  string
	Backend string
	Time    float64
	Model   string
	Output  string
	Query   string
	Func    string
}

type Gen struct {
	p       *Prog
	fn      *ssa.Function
	con     *Contract
	mode    Mode
	lines   []string
	obls    []*Obl
	n       int
	env     map[ssa.Value]*SV
	layouts map[string][]Comp
	famSort map[string]string
	declFam map[string]bool
	st      *State // current
	entry   *State
	reach   Term
	params  map[string]Val // entry values of params (by name)
	results []Val          // set at return
	typeTag map[string]int
	counts  map[string]int
	loops   map[*ssa.BasicBlock]*loopInfo
	specDecl map[string]bool
	specHeap map[string]*heapParams
	famRefLeaf map[string]bool
	fnGhosts   map[string]*fnGhost
	gvDef      map[string]Val // entry values of the mutable ghosts
	refAxDone  map[string]bool
	assumptions []string
	curPos  token.Pos
	bodyless bool
	strConsts map[string]Val
	callOrd map[*ssa.Call]int
	cellAddr map[*ssa.Alloc]*Addr
	inlineStack []*ssa.Function
	inlineRets []inlineRet
	fuelDecl bool
	axDone map[string]bool
	pendingArgAddrs map[string]*Addr
	modEffs []Effect
	famDeclLine map[string]int
	curLoop *loopInfo
	famLeaf map[string]IntInfo
	strBases []Term
	closures map[*ssa.MakeClosure]*ssa.MakeClosure
	rangeIters map[*ssa.Range]Val
	pendingHavoc map[string]bool
	deferred []*ssa.Defer
	trusted map[string]bool
	specPkg *types.Package
	specDepth int
	recSpec *SpecFunc
}

func (g *Gen) noteAssumption(a string) {
	for _, x := range g.assumptions {
		if x == a {
			return
		}
	}
	g.assumptions = append(g.assumptions, a)
}

// axioms from contract files are assumed at the start of every query that declares the spec functions they mention
func (g *Gen) emitAxioms() {}


var bigZero = bigInt(0)

func (g *Gen) emit(s string) { g.lines = append(g.lines, s) }

func (g *Gen) fresh(prefix, sort string) Term {
	g.n++
	name := smtName(fmt.Sprintf("%s!%d", prefix, g.n))
	g.emit(fmt.Sprintf("(declare-const %s %s)", name, sort))
	return Term{name, sort}
}

func (g *Gen) define(prefix string, t Term) Term {
	if len(t.S) < 24 {
		return t
	}
	g.n++
	name := smtName(fmt.Sprintf("%s!%d", prefix, g.n))
	g.emit(fmt.Sprintf("(define-fun %s () %s %s)", name, t.Sort, t.S))
	return Term{name, t.Sort}
}

func (g *Gen) assume(t Term) {
	if t.S == "true" {
		return
	}
	g.emit("(assert " + t.S + ")")
}

func (g *Gen) assumeReach(t Term) { g.assume(implies(g.reach, t)) }

func (g *Gen) posStr() string {
	if g.curPos.IsValid() {
		p := g.p.fset.Position(g.curPos)
		return fmt.Sprintf("%s:%d", strings.TrimPrefix(p.Filename, repoDir+"/"), p.Line)
	}
	return ""
}

// oblige records a proof obligation (goal must hold whenever the current point is reached) and then assumes it.
func (g *Gen) oblige(kind string, goal Term, text string) {
	if goal.S == "true" {
		return
	}
	if g.con != nil && g.con.Opts["frame"] == "off" && (kind == "modifies" || strings.HasPrefix(kind, "frame[")) {
		// opt frame=off: the modifies clause of this function is NOT checked (it stays an assumption of its callers,
		// listed as such): used for protocol-only contracts on engine internals whose frame is not the point
		note := "the modifies clause of " + g.fnName() + " is not checked (opt frame=off)"
		dup := false
		for _, a := range g.assumptions {
			dup = dup || a == note
		}
		if !dup {
			g.assumptions = append(g.assumptions, note)
		}
		g.assumeReach(goal)
		return
	}
	if g.con != nil && g.con.Opts["safety"] == "off" && isSafetyKind(kind) && !g.checkedRequires(kind) {
		// opt safety=off: the function is under contract for its functional clauses only; index, slice, nil,
		// division, overflow, explicit-panic obligations and callee preconditions are not checked (listed as
		// unchecked in the evidence) - they are assumed, i.e. the functional clauses speak about the executions
		// that do not panic
		note := "memory-safety and callee-precondition obligations of " + g.fnName() + " are not generated (opt safety=off)"
		dup := false
		for _, a := range g.assumptions {
			dup = dup || a == note
		}
		if !dup {
			g.assumptions = append(g.assumptions, note)
		}
		g.assumeReach(goal)
		return
	}
	g.counts[kind]++
	name := fmt.Sprintf("%s#%s[%d]", g.fnName(), kind, g.counts[kind])
	o := &Obl{Name: name, Kind: kind, Goal: goal, Reach: g.reach, Lines: len(g.lines), Pos: g.posStr(), Text: text, Func: g.fnName()}
	g.obls = append(g.obls, o)
	g.assumeReach(goal)
}

// checkedRequires: opt check_requires=Name1,Name2 keeps the precondition obligations of the named callees although
// the function is otherwise verified with safety=off (kind is "call[<callee key>].requires")
func (g *Gen) checkedRequires(kind string) bool {
	lst := g.con.Opts["check_requires"]
	if lst == "" || !strings.HasPrefix(kind, "call[") || !strings.HasSuffix(kind, ".requires") {
		return false
	}
	callee := strings.TrimSuffix(strings.TrimPrefix(kind, "call["), "].requires")
	for _, n := range strings.Split(lst, ",") {
		n = strings.TrimSpace(n)
		if n != "" && (strings.HasSuffix(callee, "."+n) || strings.HasSuffix(callee, ")."+n) || callee == n) {
			return true
		}
	}
	return false
}

func isSafetyKind(kind string) bool {
	switch kind {
	case "index", "slice", "nil", "div", "overflow", "bitop", "panic", "shift", "conv", "typeassert", "makeslice":
		return true
	}
	return strings.HasPrefix(kind, "call[") && strings.HasSuffix(kind, ".requires")
}

func (g *Gen) cover(kind string, text string) {
	g.counts[kind]++
	name := fmt.Sprintf("%s#%s[%d]", g.fnName(), kind, g.counts[kind])
	o := &Obl{Name: name, Kind: kind, Goal: tBool(false), Reach: g.reach, Lines: len(g.lines), Pos: g.posStr(), Text: text, Expect: "sat", Func: g.fnName()}
	g.obls = append(g.obls, o)
}

func (g *Gen) fnName() string {
	if g.con != nil && g.con.Key != "" {
		return shortKey(g.con.Key)
	}
	return shortKey(g.fn.String())
}

func shortKey(k string) string {
	return strings.ReplaceAll(k, modPath+"/", "")
}

// ---------- heap families ----------

func (g *Gen) famTerm(st *State, fam string, sort string) Term {
	if t, ok := st.heap[fam]; ok {
		return t
	}
	if st.params != nil {
		for i, f := range st.params.fams {
			if f == fam {
				return st.params.terms[i]
			}
		}
		t := Term{smtName("sp.H." + fam), sort}
		st.params.fams = append(st.params.fams, fam)
		st.params.terms = append(st.params.terms, t)
		st.heap[fam] = t
		return t
	}
	// initial version: shared by all states
	name := smtName(fam + "@0")
	if !g.declFam[fam] {
		g.declFam[fam] = true
		g.famSort[fam] = sort
		g.famDeclLine[fam] = len(g.lines)
		g.emit(fmt.Sprintf("(declare-const %s %s)", name, sort))
		g.famAxiom(Term{name, sort}, fam)
		g.refAxiom(fam)
	}
	for _, pf := range st.hv {
		if famUnder(fam, pf) {
			t := g.freshFam(fam, sort)
			st.heap[fam] = t
			return t
		}
	}
	return Term{name, sort}
}

// refAxiom: every reference stored in an object that exists at entry denotes an object that exists at entry
// (only such objects: later allocations take their initial content from the same array at indices >= alloc0 and
// may well hold younger references). Emitted once per family, for its entry version.
func (g *Gen) refAxiom(fam string) {
	if !g.famRefLeaf[fam] || g.entry == nil || g.refAxDone[fam] {
		return
	}
	g.refAxDone[fam] = true
	sort := g.famSort[fam]
	var decls []string
	cur := Term{smtName(fam + "@0"), sort}
	for isArr(cur.Sort) {
		g.n++
		q := fmt.Sprintf("k!%d", g.n)
		decls = append(decls, fmt.Sprintf("(%s %s)", q, arrIdx(cur.Sort)))
		cur = sel(cur, Term{q, arrIdx(cur.Sort)})
	}
	if cur.Sort != SInt || len(decls) == 0 {
		return
	}
	k0 := strings.Fields(strings.Trim(decls[0], "()"))[0]
	g.assume(Term{fmt.Sprintf("(forall (%s) (=> (and (<= 0 %s) (< %s %s)) (and (<= 0 %s) (< %s %s))))", strings.Join(decls, " "), k0, k0, g.entry.alloc.S, cur.S, cur.S, g.entry.alloc.S), SBool})
}

// famUnder: family fam is pf itself or a component (field, slice part, array) of it
func famUnder(fam, pf string) bool {
	return fam == pf || (strings.HasPrefix(fam, pf) && strings.ContainsAny(fam[len(pf):len(pf)+1], ".#["))
}

// noteLeaf records the integer range of the leaves of a family (Int-sorted fixed-width integers, lengths).
func (g *Gen) noteLeaf(fam string, c Comp) {
	if _, ok := g.famLeaf[fam]; ok {
		return
	}
	leaf := c.Sort
	for isArr(leaf) {
		leaf = arrElem(leaf)
	}
	if leaf != SInt {
		return
	}
	if (strings.HasSuffix(c.Kind, "ref") || (strings.HasSuffix(c.Kind, "base") && !strings.HasSuffix(c.Kind, "strbase"))) && !g.famRefLeaf[fam] {
		g.famRefLeaf[fam] = true
		if g.declFam[fam] {
			g.refAxiom(fam)
		}
	}
	switch {
	case strings.HasSuffix(c.Kind, "int") && c.GT != nil:
		if ii, ok := intInfo(c.GT); ok {
			g.famLeaf[fam] = ii
		}
	case strings.HasSuffix(c.Kind, "len"):
		g.famLeaf[fam] = IntInfo{49, false} // [0, 2^49): lengths are additionally bounded at loads
	}
}

// famAxiom: every leaf of this version of the family is within the range of its Go type
func (g *Gen) famAxiom(t Term, fam string) {
	ii, ok := g.famLeaf[fam]
	if !ok {
		return
	}
	var decls []string
	cur := t
	for isArr(cur.Sort) {
		g.n++
		q := fmt.Sprintf("k!%d", g.n)
		decls = append(decls, fmt.Sprintf("(%s %s)", q, arrIdx(cur.Sort)))
		cur = sel(cur, Term{q, arrIdx(cur.Sort)})
	}
	if cur.Sort != SInt {
		return
	}
	body := rangeFact(cur, ii)
	if len(decls) == 0 {
		g.assume(body)
		return
	}
	g.assume(Term{fmt.Sprintf("(forall (%s) %s)", strings.Join(decls, " "), body.S), SBool})
}

// freshFam creates an unconstrained new version of a family (havoc) with its type-range axiom
func (g *Gen) freshFam(fam, sort string) Term {
	t := g.fresh("hv", sort)
	g.famAxiom(t, fam)
	return t
}

// freshPart creates an unconstrained element of a family version (stored at a havoc target)
func (g *Gen) freshPart(fam, sort string) Term {
	t := g.fresh("hvx", sort)
	g.famAxiom(t, fam)
	return t
}

var reByte = regexp.MustCompile(`\bbyte\b`)
var reRune = regexp.MustCompile(`\brune\b`)

func typeKey(t types.Type) string {
	s := types.TypeString(t, func(p *types.Package) string {
		return strings.TrimPrefix(p.Path(), modPath+"/")
	})
	s = reByte.ReplaceAllString(s, "uint8")
	return reRune.ReplaceAllString(s, "int32")
}

// family sort for a component stored behind Ref (aHeap/aGlobal) or base+idx (aElem)
func (g *Gen) famSortFor(a *Addr, c Comp) string {
	switch a.K {
	case aHeap:
		return arrSort(SInt, c.Sort)
	case aElem:
		return arrSort(SInt, arrSort(g.intRep(), c.Sort))
	case aGlobal:
		return c.Sort
	}
	panic("famSortFor")
}

// storage layout: the component list of the root object the address points into, restricted to path prefix.
// We look up components by full path, so the Addr must carry the pointee type whose layout gives relative paths.

func (g *Gen) loadAddr(st *State, a *Addr) Val {
	l := g.layout(a.T)
	v := Val{T: a.T}
	for _, c := range l {
		v.C = append(v.C, g.loadComp(st, a, c))
	}
	return v
}

// comp sort as stored (before applying AIdx selects): wrap c.Sort with len(AIdx) array levels
func (g *Gen) storedSort(a *Addr, c Comp) string {
	s := c.Sort
	for range a.AIdx {
		s = arrSort(g.intRep(), s)
	}
	return s
}

func (g *Gen) loadComp(st *State, a *Addr, c Comp) Term {
	path := a.Path + c.Path
	ss := g.storedSort(a, c)
	var root Term
	switch a.K {
	case aLocal:
		root = g.cellComp(st, a.Al, path, ss)
	case aHeap:
		g.noteLeaf(a.Fam+path, c)
		f := g.famTerm(st, a.Fam+path, arrSort(SInt, ss))
		root = sel(f, a.Ref)
	case aElem:
		g.noteLeaf(a.Fam+path, c)
		f := g.famTerm(st, a.Fam+path, arrSort(SInt, arrSort(g.intRep(), ss)))
		root = sel(sel(f, a.Ref), a.Idx)
	case aGlobal:
		g.noteLeaf(a.Fam+path, c)
		root = g.famTerm(st, a.Fam+path, ss)
	}
	for _, ix := range a.AIdx {
		root = sel(root, ix)
	}
	if c.Kind == "int" && root.Sort == SInt && c.GT != nil {
		if ii, ok := intInfo(c.GT); ok {
			root = g.define("ld", root)
			g.assume(rangeFact(root, ii))
		}
	}
	if (c.Kind == "len") && root.Sort == SInt {
		root = g.define("ld", root)
		g.assume(Term{app("<=", "0", root.S), SBool})
		g.assume(Term{app("<=", root.S, maxLenStr), SBool})
	}
	return root
}

const maxLenStr = "281474976710656" // 2^48

func nestedStore(root Term, idx []Term, v Term) Term {
	if len(idx) == 0 {
		return v
	}
	inner := nestedStore(sel(root, idx[0]), idx[1:], v)
	return sto(root, idx[0], inner)
}

func (g *Gen) storeComp(st *State, a *Addr, c Comp, v Term) {
	path := a.Path + c.Path
	ss := g.storedSort(a, c)
	switch a.K {
	case aLocal:
		i := g.cellIndex(a.Al, path)
		old := st.cells[a.Al][i]
		st.cells[a.Al][i] = g.define("c", nestedStore(old, a.AIdx, v))
	case aHeap:
		fam := a.Fam + path
		g.noteLeaf(fam, c)
		f := g.famTerm(st, fam, arrSort(SInt, ss))
		nv := nestedStore(sel(f, a.Ref), a.AIdx, v)
		st.heap[fam] = g.define("h", sto(f, a.Ref, nv))
	case aElem:
		fam := a.Fam + path
		g.noteLeaf(fam, c)
		f := g.famTerm(st, fam, arrSort(SInt, arrSort(g.intRep(), ss)))
		inner := sel(f, a.Ref)
		nv := nestedStore(sel(inner, a.Idx), a.AIdx, v)
		st.heap[fam] = g.define("h", sto(f, a.Ref, sto(inner, a.Idx, nv)))
	case aGlobal:
		fam := a.Fam + path
		f := g.famTerm(st, fam, ss)
		st.heap[fam] = g.define("h", nestedStore(f, a.AIdx, v))
	}
}

func (g *Gen) storeAddr(st *State, a *Addr, v Val) {
	l := g.layout(a.T)
	if len(l) != len(v.C) {
		oos("store: layout mismatch for %s (%d vs %d)", a.T, len(l), len(v.C))
	}
	for i, c := range l {
		g.storeComp(st, a, c, v.C[i])
	}
}

// local cells
func (g *Gen) allocType(al *ssa.Alloc) types.Type {
	return al.Type().Underlying().(*types.Pointer).Elem()
}

func (g *Gen) cellIndex(al *ssa.Alloc, path string) int {
	for i, c := range g.layout(g.allocType(al)) {
		if c.Path == path {
			return i
		}
	}
	oos("no component %q in local %s", path, al.Comment)
	return -1
}

func (g *Gen) cellComp(st *State, al *ssa.Alloc, path string, sort string) Term {
	cs, ok := st.cells[al]
	if !ok {
		// not yet initialised on this path (e.g. allocated in a block not dominating): zero
		z := g.zeroVal(g.allocType(al))
		st.cells[al] = z.C
		cs = z.C
	}
	return cs[g.cellIndex(al, path)]
}

// ---------- fresh objects ----------

func (g *Gen) newRef(st *State) Term {
	r := g.define("new", st.alloc)
	st.alloc = g.define("alloc", Term{app("+", st.alloc.S, "1"), SInt})
	return r
}

// assume that a reference-like value read from the pre-existing world is older than the allocation counter
func (g *Gen) assumeOld(st *State, t Term) {
	g.assume(Term{app("<", t.S, st.alloc.S), SBool})
}

func (g *Gen) typeTagOf(t types.Type) Term {
	k := typeKey(t)
	id, ok := g.typeTag[k]
	if !ok {
		id = len(g.typeTag) + 1
		g.typeTag[k] = id
	}
	return tInt(int64(id))
}

// structure family prefix for a pointer-to-T object
func heapFam(t types.Type) string {
	if _, ok := t.Underlying().(*types.Struct); ok {
		return "H:" + typeKey(t)
	}
	return "B:" + typeKey(t)
}

func elemFam(t types.Type) string { return "E:" + typeKey(t) }

// refAddr: address of the object a pointer value (ref term) of type *T points to
func (g *Gen) refAddr(ref Term, elem types.Type) *Addr {
	return &Addr{K: aHeap, Fam: heapFam(elem), Ref: ref, T: elem}
}

func sortedKeys[M ~map[string]V, V any](m M) []string {
	var ks []string
	for k := range m {
		ks = append(ks, k)
	}
	sort.Strings(ks)
	return ks
}
