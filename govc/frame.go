package main

// Frame / ownership engine (DESIGN section 4): a bottom-up modifies-summary over the SSA call graph. For every
// exported search, enumeration and replace method of coregex.Regex and meta.Engine it checks the frame contract
// "no non-atomic write to memory reachable from the shared receiver or from package-level variables, and no
// write to the haystack / string arguments". Memory obtained from sync.Pool.Get, atomic.Pointer.Swap or a fresh
// allocation is owned by the call.

import (
	"encoding/json"
	"fmt"
	"go/token"
	"go/types"
	"os"
	"path/filepath"
	"sort"
	"strings"
	"time"

	"golang.org/x/tools/go/ssa"
)

const (
	oParam = iota
	oGlobal
	oFresh
	oOwned
	oUnknown
)

type origin struct {
	kind int
	idx  int    // parameter index (receiver first) / allocation site id
	name string // global name
	path string // abstract access path below the root, e.g. ".engine.pikevm.*"
}

func (o origin) String() string {
	switch o.kind {
	case oParam:
		return fmt.Sprintf("param%d%s", o.idx, o.path)
	case oGlobal:
		return "global " + o.name + o.path
	case oFresh:
		return fmt.Sprintf("fresh#%d", o.idx)
	case oOwned:
		return "owned" + o.path
	}
	return "unknown"
}

type oset map[origin]bool

func (s oset) addAll(t oset) bool {
	ch := false
	for o := range t {
		if !s[o] {
			s[o] = true
			ch = true
		}
	}
	return ch
}

const maxPath = 12

func extend(o origin, step string) origin {
	if o.kind == oFresh || o.kind == oUnknown {
		return o
	}
	parts := strings.Split(strings.TrimPrefix(o.path, "."), ".")
	if o.path == "" {
		parts = nil
	}
	if len(parts) >= maxPath {
		return o
	}
	// collapse repeated derefs
	if step == "*" && len(parts) > 0 && parts[len(parts)-1] == "*" {
		return o
	}
	o.path += "." + step
	return o
}

type feffect struct {
	o      origin
	atomic bool
	chain  []string // witness call chain, innermost last
}

type fsummary struct {
	writes  map[string]feffect // key: origin string + atomic flag
	returns []oset             // per result
}

type frameEngine struct {
	p     *Prog
	sums  map[*ssa.Function]*fsummary
	sites map[ssa.Value]int
	impls map[string][]*ssa.Function // interface method name -> implementations in the module
	notes map[string]bool
	// badReleases: functions that hand a state back to the pool / local slot although it came in through a
	// parameter, i.e. belongs to the caller, who keeps using it (key: function, value: witness)
	badReleases map[string]string
}

// release points: after the call the argument may be handed to another goroutine
func isReleaseFn(name string) bool {
	switch name {
	case "(*sync.Pool).Put", "(*" + modPath + "/meta.Engine).putSearchState", "(*" + modPath + "/meta.searchStatePool).put":
		return true
	}
	return false
}

// functions whose JOB is to release their parameter
func isReleaseWrapper(fn *ssa.Function) bool {
	n := strings.ToLower(fn.Name())
	return strings.HasPrefix(n, "put") || strings.HasPrefix(n, "release")
}

func newFrameEngine(p *Prog) *frameEngine {
	fe := &frameEngine{p: p, sums: map[*ssa.Function]*fsummary{}, sites: map[ssa.Value]int{}, impls: map[string][]*ssa.Function{}, notes: map[string]bool{}}
	live := fe.instantiatedTypes()
	for _, fn := range p.funcs {
		if fn.Signature.Recv() != nil && inModule(fn) && len(fn.Blocks) > 0 {
			if n := namedOf(fn.Signature.Recv().Type()); n != nil && !live[n.Obj().Pkg().Path()+"."+n.Obj().Name()] {
				continue // the type is never converted to an interface on any path from the public API (RTA)
			}
			fe.impls[fn.Name()] = append(fe.impls[fn.Name()], fn)
		}
	}
	return fe
}

// instantiatedTypes: rapid type analysis. Concrete types that are converted to an interface value in functions
// reachable from the exported API of the root package and of package meta (the Regex / Engine construction and
// search paths). Interface method calls are resolved against this set only.
func (fe *frameEngine) instantiatedTypes() map[string]bool {
	live := map[string]bool{}
	reach := map[*ssa.Function]bool{}
	var work []*ssa.Function
	push := func(f *ssa.Function) {
		if f != nil && !reach[f] && len(f.Blocks) > 0 && inModule(f) {
			reach[f] = true
			work = append(work, f)
		}
	}
	for _, fn := range fe.p.funcs {
		pk := fn.Pkg
		if pk == nil || !token.IsExported(fn.Name()) {
			continue
		}
		if path := pk.Pkg.Path(); path == modPath || path == modPath+"/meta" {
			push(fn)
		}
	}
	methodsByName := map[string][]*ssa.Function{}
	for _, fn := range fe.p.funcs {
		if fn.Signature.Recv() != nil && inModule(fn) {
			methodsByName[fn.Name()] = append(methodsByName[fn.Name()], fn)
		}
	}
	var invoked []string
	for changed := true; changed; {
		changed = false
		for len(work) > 0 {
			f := work[len(work)-1]
			work = work[:len(work)-1]
			for _, b := range f.Blocks {
				for _, ins := range b.Instrs {
					switch x := ins.(type) {
					case *ssa.MakeInterface:
						if n := namedOf(x.X.Type()); n != nil && n.Obj().Pkg() != nil {
							k := n.Obj().Pkg().Path() + "." + n.Obj().Name()
							if !live[k] {
								live[k] = true
								changed = true
							}
						}
					case ssa.CallInstruction:
						cc := x.Common()
						if cc.IsInvoke() {
							invoked = append(invoked, cc.Method.Name())
						} else if sf := cc.StaticCallee(); sf != nil {
							push(sf)
						}
						for _, a := range cc.Args {
							if mc, ok := a.(*ssa.MakeClosure); ok {
								push(mc.Fn.(*ssa.Function))
							}
							if fv, ok := a.(*ssa.Function); ok {
								push(fv)
							}
						}
					case *ssa.MakeClosure:
						push(x.Fn.(*ssa.Function))
					}
				}
			}
		}
		for _, name := range invoked {
			for _, m := range methodsByName[name] {
				if n := namedOf(m.Signature.Recv().Type()); n != nil && live[n.Obj().Pkg().Path()+"."+n.Obj().Name()] && !reach[m] {
					push(m)
					changed = true
				}
			}
		}
	}
	return live
}

func inModule(fn *ssa.Function) bool {
	pk := fn.Pkg
	if pk == nil && fn.Parent() != nil {
		pk = fn.Parent().Pkg
	}
	if pk == nil {
		if fn.Signature.Recv() != nil {
			// method wrappers/instantiations: look at the receiver's package
			if n := namedOf(fn.Signature.Recv().Type()); n != nil && n.Obj().Pkg() != nil {
				return strings.HasPrefix(n.Obj().Pkg().Path(), modPath)
			}
		}
		return false
	}
	return strings.HasPrefix(pk.Pkg.Path(), modPath)
}

func namedOf(t types.Type) *types.Named {
	if p, ok := t.(*types.Pointer); ok {
		t = p.Elem()
	}
	n, _ := t.(*types.Named)
	return n
}

func pointerLike(t types.Type) bool {
	switch t.Underlying().(type) {
	case *types.Pointer, *types.Slice, *types.Map, *types.Interface, *types.Signature, *types.Chan:
		return true
	case *types.Struct, *types.Array:
		return true // may contain pointers
	}
	return false
}

func (fe *frameEngine) site(v ssa.Value) int {
	if id, ok := fe.sites[v]; ok {
		return id
	}
	id := len(fe.sites) + 1
	fe.sites[v] = id
	return id
}

// analyze computes (one round of) the summary of fn given the current summaries of its callees.
func (fe *frameEngine) analyze(fn *ssa.Function) bool {
	sum := fe.sums[fn]
	if sum == nil {
		sum = &fsummary{writes: map[string]feffect{}}
		for i := 0; i < fn.Signature.Results().Len(); i++ {
			sum.returns = append(sum.returns, oset{})
		}
		fe.sums[fn] = sum
	}
	if len(fn.Blocks) == 0 {
		return false
	}
	vals := map[ssa.Value]oset{}
	cells := map[ssa.Value]oset{} // contents of local/fresh objects (field-insensitive)
	get := func(v ssa.Value) oset {
		if s, ok := vals[v]; ok {
			return s
		}
		s := oset{}
		vals[v] = s
		return s
	}
	for i, p := range fn.Params {
		get(p)[origin{kind: oParam, idx: i}] = true
	}
	for _, fv := range fn.FreeVars {
		get(fv)[origin{kind: oUnknown}] = true
	}
	changedSum := false
	addWrite := func(o origin, atomic bool, chain []string) {
		if o.kind == oFresh {
			return
		}
		k := o.String()
		if atomic {
			k += "@atomic"
		}
		if _, ok := sum.writes[k]; !ok {
			sum.writes[k] = feffect{o: o, atomic: atomic, chain: chain}
			changedSum = true
		}
	}
	pos := func(ins ssa.Instruction) string {
		return relPos(fe.p.fset, ins.Pos())
	}
	for iter := 0; iter < 8; iter++ {
		changed := false
		for _, b := range fn.Blocks {
			for _, ins := range b.Instrs {
				switch x := ins.(type) {
				case *ssa.Alloc:
					s := get(x)
					o := origin{kind: oFresh, idx: fe.site(x)}
					if !s[o] {
						s[o] = true
						changed = true
					}
				case *ssa.MakeSlice, *ssa.MakeMap, *ssa.MakeChan:
					v := ins.(ssa.Value)
					s := get(v)
					o := origin{kind: oFresh, idx: fe.site(v)}
					if !s[o] {
						s[o] = true
						changed = true
					}
				case *ssa.FieldAddr:
					src := fe.valOrigins(x.X, get)
					st := x.X.Type().Underlying().(*types.Pointer).Elem().Underlying().(*types.Struct)
					d := get(x)
					for o := range src {
						if n := extend(o, st.Field(x.Field).Name()); !d[n] {
							d[n] = true
							changed = true
						}
					}
				case *ssa.Field:
					if pointerLike(x.Type()) {
						if get(x).addAll(fe.valOrigins(x.X, get)) {
							changed = true
						}
					}
				case *ssa.IndexAddr:
					src := fe.valOrigins(x.X, get)
					d := get(x)
					for o := range src {
						if n := extend(o, "*"); !d[n] {
							d[n] = true
							changed = true
						}
					}
				case *ssa.Index, *ssa.Lookup:
					v := ins.(ssa.Value)
					if pointerLike(v.Type()) {
						var xv ssa.Value
						if ix, ok := ins.(*ssa.Index); ok {
							xv = ix.X
						} else {
							xv = ins.(*ssa.Lookup).X
						}
						d := get(v)
						for o := range fe.valOrigins(xv, get) {
							if n := extend(o, "*"); !d[n] {
								d[n] = true
								changed = true
							}
						}
					}
				case *ssa.Slice:
					if get(x).addAll(fe.valOrigins(x.X, get)) {
						changed = true
					}
				case *ssa.UnOp:
					if x.Op == token.MUL && pointerLike(x.Type()) {
						d := get(x)
						for o := range fe.valOrigins(x.X, get) {
							if o.kind == oFresh {
								// contents of a local / fresh object
								if c, ok := cells[fe.siteVal(o)]; ok {
									if d.addAll(c) {
										changed = true
									}
								}
								continue
							}
							if n := extend(o, "*"); !d[n] {
								d[n] = true
								changed = true
							}
						}
					}
				case *ssa.Store:
					if pointerLike(x.Val.Type()) {
						for o := range fe.valOrigins(x.Addr, get) {
							if o.kind == oFresh {
								k := fe.siteVal(o)
								if cells[k] == nil {
									cells[k] = oset{}
								}
								if cells[k].addAll(fe.valOrigins(x.Val, get)) {
									changed = true
								}
							}
						}
					}
				case *ssa.Phi:
					d := get(x)
					for _, e := range x.Edges {
						if d.addAll(fe.valOrigins(e, get)) {
							changed = true
						}
					}
				case *ssa.ChangeType, *ssa.ChangeInterface, *ssa.MakeInterface, *ssa.Convert, *ssa.TypeAssert, *ssa.Extract, *ssa.SliceToArrayPointer:
					v := ins.(ssa.Value)
					var src ssa.Value
					switch y := ins.(type) {
					case *ssa.ChangeType:
						src = y.X
					case *ssa.ChangeInterface:
						src = y.X
					case *ssa.MakeInterface:
						src = y.X
					case *ssa.Convert:
						src = y.X
					case *ssa.TypeAssert:
						src = y.X
					case *ssa.Extract:
						// tuple component: origins recorded per call result below
						if c, ok := y.Tuple.(*ssa.Call); ok {
							if rs, ok2 := fe.callReturns(c, get, fn); ok2 && y.Index < len(rs) {
								if get(v).addAll(rs[y.Index]) {
									changed = true
								}
							}
							continue
						}
						src = y.Tuple
					case *ssa.SliceToArrayPointer:
						src = y.X
					}
					if src != nil && get(v).addAll(fe.valOrigins(src, get)) {
						changed = true
					}
				case *ssa.MakeClosure:
					get(x)[origin{kind: oFresh, idx: fe.site(x)}] = true
				case *ssa.Call:
					if rs, ok := fe.callReturns(x, get, fn); ok && len(rs) == 1 {
						if get(x).addAll(rs[0]) {
							changed = true
						}
					}
				}
			}
		}
		if !changed {
			break
		}
	}
	// effects
	for _, b := range fn.Blocks {
		for _, ins := range b.Instrs {
			switch x := ins.(type) {
			case *ssa.Store:
				for o := range fe.valOrigins(x.Addr, get) {
					addWrite(o, false, []string{fmt.Sprintf("store at %s in %s", pos(ins), shortKey(fn.String()))})
				}
			case *ssa.MapUpdate:
				for o := range fe.valOrigins(x.Map, get) {
					addWrite(extend(o, "*"), false, []string{fmt.Sprintf("map update at %s in %s", pos(ins), shortKey(fn.String()))})
				}
			case *ssa.Call:
				fe.checkRelease(fn, b, ins, &x.Call, get, pos(ins))
				fe.callEffects(x, fn, get, addWrite, pos(ins))
			case *ssa.Defer:
				fe.checkRelease(fn, b, ins, &x.Call, get, pos(ins))
				fake := &ssa.Call{Call: x.Call}
				fe.callEffects(fake, fn, get, addWrite, pos(ins))
			case *ssa.Go:
				fake := &ssa.Call{Call: x.Call}
				fe.callEffects(fake, fn, get, addWrite, pos(ins))
			case *ssa.Return:
				for i, r := range x.Results {
					if i < len(sum.returns) && pointerLike(r.Type()) {
						// the result and everything stored inside freshly allocated objects it is made of
						reach := oset{}
						var add func(os oset, depth int)
						add = func(os oset, depth int) {
							for o := range os {
								if reach[o] {
									continue
								}
								reach[o] = true
								if o.kind == oFresh && depth < 6 {
									if c, ok := cells[fe.siteVal(o)]; ok {
										add(c, depth+1)
									}
								}
							}
						}
						add(fe.valOrigins(r, get), 0)
						if sum.returns[i].addAll(reach) {
							changedSum = true
						}
					}
				}
			}
		}
	}
	return changedSum
}

func (fe *frameEngine) siteVal(o origin) ssa.Value {
	for v, id := range fe.sites {
		if id == o.idx {
			return v
		}
	}
	return nil
}

func (fe *frameEngine) valOrigins(v ssa.Value, get func(ssa.Value) oset) oset {
	switch x := v.(type) {
	case *ssa.Global:
		return oset{origin{kind: oGlobal, name: typeKeyGlobal(x)}: true}
	case *ssa.Const, *ssa.Function, *ssa.Builtin:
		return oset{}
	}
	return get(v)
}

// callees of a call: static callee, or all module implementations of an interface method
func (fe *frameEngine) callees(c *ssa.Call) []*ssa.Function {
	cc := c.Common()
	if cc.IsInvoke() {
		var out []*ssa.Function
		for _, f := range fe.impls[cc.Method.Name()] {
			if types.Identical(f.Signature.Params(), cc.Method.Type().(*types.Signature).Params()) {
				out = append(out, f)
			}
		}
		return out
	}
	if f := cc.StaticCallee(); f != nil {
		return []*ssa.Function{f}
	}
	if mc, ok := cc.Value.(*ssa.MakeClosure); ok {
		return []*ssa.Function{mc.Fn.(*ssa.Function)}
	}
	return nil
}

func calleeName(f *ssa.Function) string { return normKey(f.String()) }

// ownership hand-off points: the result is exclusively owned by the caller
func isOwnedSource(name string) bool {
	switch name {
	case "(*sync.Pool).Get", "(*sync/atomic.Pointer).Swap", "(*sync/atomic.Pointer).Load":
		return name != "(*sync/atomic.Pointer).Load"
	}
	return false
}

func isAtomicFn(name string) bool {
	return strings.HasPrefix(name, "sync/atomic.") || strings.HasPrefix(name, "(*sync/atomic.")
}

func (fe *frameEngine) argValues(c *ssa.Call) []ssa.Value {
	cc := c.Common()
	if cc.IsInvoke() {
		return append([]ssa.Value{cc.Value}, cc.Args...)
	}
	return cc.Args
}

func (fe *frameEngine) mapOrigin(o origin, args []ssa.Value, get func(ssa.Value) oset) oset {
	out := oset{}
	switch o.kind {
	case oParam:
		if o.idx < len(args) {
			for a := range fe.valOrigins(args[o.idx], get) {
				n := a
				if o.path != "" {
					for _, st := range strings.Split(strings.TrimPrefix(o.path, "."), ".") {
						n = extend(n, st)
					}
				}
				out[n] = true
			}
		}
	case oGlobal, oOwned, oUnknown:
		out[o] = true
	}
	return out
}

func (fe *frameEngine) callReturns(c *ssa.Call, get func(ssa.Value) oset, caller *ssa.Function) ([]oset, bool) {
	cc := c.Common()
	if b, ok := cc.Value.(*ssa.Builtin); ok {
		if b.Name() == "append" && len(cc.Args) > 0 {
			s := oset{}
			s.addAll(fe.valOrigins(cc.Args[0], get))
			s[origin{kind: oFresh, idx: fe.site(c)}] = true
			return []oset{s}, true
		}
		return nil, false
	}
	var res []oset
	n := 1
	if tup, ok := c.Type().(*types.Tuple); ok {
		n = tup.Len()
	}
	for i := 0; i < n; i++ {
		res = append(res, oset{})
	}
	args := fe.argValues(c)
	for _, f := range fe.callees(c) {
		name := calleeName(f)
		if isOwnedSource(name) {
			for i := range res {
				res[i][origin{kind: oOwned}] = true
			}
			continue
		}
		if !inModule(f) {
			// library function: results may alias pointer arguments
			for i := range res {
				for _, a := range args {
					if pointerLike(a.Type()) {
						res[i].addAll(fe.valOrigins(a, get))
					}
				}
				res[i][origin{kind: oFresh, idx: fe.site(c)}] = true
			}
			continue
		}
		s := fe.sums[f]
		if s == nil {
			continue
		}
		for i := range res {
			if i < len(s.returns) {
				for o := range s.returns[i] {
					if o.kind == oFresh {
						res[i][origin{kind: oFresh, idx: fe.site(c)}] = true
						continue
					}
					res[i].addAll(fe.mapOrigin(o, args, get))
				}
			}
		}
	}
	if len(fe.callees(c)) == 0 {
		for i := range res {
			res[i][origin{kind: oUnknown}] = true
		}
	}
	return res, true
}

func (fe *frameEngine) callEffects(c *ssa.Call, fn *ssa.Function, get func(ssa.Value) oset, addWrite func(origin, bool, []string), at string) {
	cc := c.Common()
	args := fe.argValues(c)
	if b, ok := cc.Value.(*ssa.Builtin); ok {
		switch b.Name() {
		case "copy", "clear":
			for o := range fe.valOrigins(args[0], get) {
				addWrite(extend(o, "*"), false, []string{fmt.Sprintf("%s at %s in %s", b.Name(), at, shortKey(fn.String()))})
			}
		case "append":
			// may write into spare capacity of the first argument's backing array
			for o := range fe.valOrigins(args[0], get) {
				addWrite(extend(o, "*"), false, []string{fmt.Sprintf("append at %s in %s", at, shortKey(fn.String()))})
			}
		case "delete":
			for o := range fe.valOrigins(args[0], get) {
				addWrite(extend(o, "*"), false, []string{fmt.Sprintf("delete at %s in %s", at, shortKey(fn.String()))})
			}
		}
		return
	}
	cs := fe.callees(c)
	if len(cs) == 0 {
		fe.notes["dynamic call through a function value in "+shortKey(fn.String())+" (callee not analysed; user callbacks are excluded by contract)"] = true
		return
	}
	for _, f := range cs {
		name := calleeName(f)
		step := fmt.Sprintf("%s calls %s at %s", shortKey(fn.String()), shortKey(name), at)
		if isAtomicFn(name) {
			if len(args) > 0 {
				for o := range fe.valOrigins(args[0], get) {
					addWrite(extend(o, "*"), true, []string{step})
				}
			}
			continue
		}
		if name == "(*sync.Pool).Get" || name == "(*sync.Pool).Put" {
			continue // synchronised by the pool
		}
		if !inModule(f) {
			// library: pointer-receiver methods may write their receiver; functions known to write an argument
			if f.Signature.Recv() != nil {
				if _, isPtr := f.Signature.Recv().Type().(*types.Pointer); isPtr && len(args) > 0 && mutatingLibMethod(f) {
					for o := range fe.valOrigins(args[0], get) {
						addWrite(extend(o, "*"), false, []string{step})
					}
				}
			} else if libWritesFirstArg(name) && len(args) > 0 {
				for o := range fe.valOrigins(args[0], get) {
					addWrite(extend(o, "*"), false, []string{step})
				}
			}
			continue
		}
		s := fe.sums[f]
		if s == nil {
			continue
		}
		keys := make([]string, 0, len(s.writes))
		for k := range s.writes {
			keys = append(keys, k)
		}
		sort.Strings(keys)
		for _, k := range keys {
			w := s.writes[k]
			for o := range fe.mapOrigin(w.o, args, get) {
				chain := append([]string{step}, w.chain...)
				if len(chain) > 12 {
					chain = chain[:12]
				}
				addWrite(o, w.atomic, chain)
			}
		}
	}
}

// checkRelease: a call (or deferred call) that hands a value back to a pool / the local slot must release a value this
// function obtained itself. The analysis is flow-insensitive for locals, so the released local is resolved to the value
// stored into it earlier in the SAME block when there is one (state = e.getSearchState(); defer e.putSearchState(state)).
func (fe *frameEngine) checkRelease(fn *ssa.Function, b *ssa.BasicBlock, at ssa.Instruction, cc *ssa.CallCommon, get func(ssa.Value) oset, where string) {
	if isReleaseWrapper(fn) || cc.IsInvoke() {
		return
	}
	f := cc.StaticCallee()
	if f == nil || !isReleaseFn(calleeName(f)) || len(cc.Args) < 2 {
		return
	}
	rel := cc.Args[1]
	if mi, ok := rel.(*ssa.MakeInterface); ok {
		rel = mi.X
	}
	if u, ok := rel.(*ssa.UnOp); ok && u.Op == token.MUL {
		if al, ok := u.X.(*ssa.Alloc); ok {
			// position of the load in the block
			li := -1
			for i, ins := range b.Instrs {
				if ins == ssa.Instruction(u) {
					li = i
				}
			}
			if li < 0 {
				for i, ins := range b.Instrs {
					if ins == at {
						li = i
					}
				}
			}
			for i := li - 1; i >= 0; i-- {
				if st, ok := b.Instrs[i].(*ssa.Store); ok && st.Addr == ssa.Value(al) {
					rel = st.Val
					break
				}
			}
		}
	}
	for o := range fe.valOrigins(rel, get) {
		if o.kind == oParam {
			if fe.badReleases == nil {
				fe.badReleases = map[string]string{}
			}
			fe.badReleases[shortKey(fn.String())] = fmt.Sprintf("%s calls %s at %s: the released value may be %s", shortKey(fn.String()), shortKey(calleeName(f)), where, o.String())
		}
	}
}

func mutatingLibMethod(f *ssa.Function) bool {
	n := f.Name()
	for _, p := range []string{"Write", "Reset", "Grow", "Set", "Add", "Store", "Swap", "Push", "Pop", "Truncate", "Read", "Unread", "Lock", "Unlock", "Do"} {
		if strings.HasPrefix(n, p) {
			return true
		}
	}
	return false
}

func libWritesFirstArg(name string) bool {
	switch name {
	case "sort.Slice", "sort.Sort", "sort.Ints", "sort.Strings", "slices.Sort", "slices.SortFunc", "encoding/binary.littleEndian.PutUint64", "unicode/utf8.EncodeRune":
		return true
	}
	return false
}

// ---- driver ----

var notSearch = map[string]bool{"Longest": true, "SetLongest": true, "ResetStats": true, "UnmarshalText": true, "Stats": true, "String": true,
	"Copy": true, "MarshalText": true}

type frameFinding struct {
	Entry  string   `json:"entry"`
	Root   string   `json:"root"`
	Effect string   `json:"effect"`
	Chain  []string `json:"chain"`
	Key    string   `json:"key"`
}

func cmdFrame(args []string) int {
	prop := "C06"
	tier := "quick"
	for i, a := range args {
		if a == "-prop" && i+1 < len(args) {
			prop = args[i+1]
		}
		if a == "-tier" && i+1 < len(args) {
			tier = args[i+1]
		}
	}
	t0 := time.Now()
	p, err := LoadProg()
	if err != nil {
		fmt.Println("load failed:", err)
		return 2
	}
	fe := newFrameEngine(p)
	// all functions reachable (module functions only get summaries)
	var fns []*ssa.Function
	for _, fn := range p.funcs {
		if inModule(fn) && len(fn.Blocks) > 0 {
			fns = append(fns, fn)
		}
	}
	sort.Slice(fns, func(i, j int) bool { return fns[i].String() < fns[j].String() })
	rounds := 0
	for {
		rounds++
		ch := false
		for _, fn := range fns {
			if fe.analyze(fn) {
				ch = true
			}
		}
		if !ch || rounds > 40 {
			break
		}
	}
	// entry points: exported methods of coregex.Regex and meta.Engine
	var entries []*ssa.Function
	for _, fn := range fns {
		recv := fn.Signature.Recv()
		if recv == nil || !token.IsExported(fn.Name()) || notSearch[fn.Name()] {
			continue
		}
		n := namedOf(recv.Type())
		if n == nil {
			continue
		}
		q := n.Obj().Pkg().Path() + "." + n.Obj().Name()
		if q == modPath+".Regex" || q == modPath+"/meta.Engine" {
			if _, isPtr := recv.Type().(*types.Pointer); isPtr && !strings.Contains(fn.Name(), "$") {
				entries = append(entries, fn)
			}
		}
	}
	var findings []frameFinding
	clean := 0
	var samples []any
	groups := map[string][]frameFinding{} // shared object (field chain below the engine) -> findings
	for _, fn := range entries {
		s := fe.sums[fn]
		bad := 0
		keys := make([]string, 0, len(s.writes))
		for k := range s.writes {
			keys = append(keys, k)
		}
		sort.Strings(keys)
		for _, k := range keys {
			w := s.writes[k]
			if w.atomic {
				continue
			}
			viol := ""
			switch w.o.kind {
			case oParam:
				if w.o.idx == 0 {
					viol = "shared receiver"
				} else {
					pt := fn.Params[w.o.idx]
					if isByteSlice(pt.Type()) || isString(pt.Type()) {
						if pt.Name() != "dst" {
							viol = "input " + pt.Name()
						}
					}
				}
			case oGlobal:
				viol = "package-level variable"
			}
			if viol == "" {
				continue
			}
			bad++
			key := "frame:" + sharedObject(w.o, viol)
			ff := frameFinding{Entry: shortKey(fn.String()), Root: viol, Effect: w.o.String(), Chain: w.chain, Key: key}
			findings = append(findings, ff)
			groups[key] = append(groups[key], ff)
		}
		// results must not alias per-search state that has been handed back to the pool / slot
		for i, rs := range s.returns {
			for o := range rs {
				if o.kind == oOwned {
					bad++
					key := "frame:result-aliases-pooled-state"
					ff := frameFinding{Entry: shortKey(fn.String()), Root: "owned state escaping through result", Effect: fmt.Sprintf("result %d aliases %s", i, o.String()), Key: key}
					findings = append(findings, ff)
					groups[key] = append(groups[key], ff)
				}
			}
		}
		if bad == 0 {
			clean++
			if len(samples) < 5 {
				samples = append(samples, map[string]any{"obligation": "frame:" + shortKey(fn.String()), "result": "no non-atomic write to shared or input memory", "owned_or_atomic_writes": len(s.writes)})
			}
		}
	}
	// ownership is also lost by RELEASING what one does not own: a function that puts a state it received from its
	// caller back into the pool / local slot lets another goroutine take it while the caller still uses it
	for fnName, wit := range fe.badReleases {
		key := "frame:releases-callers-state:" + fnName
		ff := frameFinding{Entry: fnName, Root: "state received through a parameter", Effect: wit, Key: key}
		findings = append(findings, ff)
		groups[key] = append(groups[key], ff)
	}
	// known findings / violations: one obligation per shared object that is written without synchronisation
	kf := loadKnownFindings()
	violations := 0
	var kfSeen []string
	os.MkdirAll(filepath.Join(verifDir, "replays", prop), 0o755)
	gkeys := make([]string, 0, len(groups))
	for k := range groups {
		gkeys = append(gkeys, k)
	}
	sort.Strings(gkeys)
	for _, key := range gkeys {
		fs := groups[key]
		ents := map[string]bool{}
		for _, f := range fs {
			ents[f.Entry] = true
		}
		var elist []string
		for e := range ents {
			elist = append(elist, e)
		}
		sort.Strings(elist)
		if k := kf.match(prop, key); k != nil {
			kfSeen = append(kfSeen, key)
			fmt.Printf("KNOWN-FINDING: property=%s %s (%d entry points) %s\n", prop, key, len(elist), k.What)
			continue
		}
		violations++
		rp := filepath.Join(verifDir, "replays", prop, sanitizeFile(key)+".json")
		data, _ := json.MarshalIndent(map[string]any{"property": prop, "obligation": key, "entry_points": elist, "violated_root": fs[0].Root,
			"example_write": fs[0].Effect, "witness_call_chain": fs[0].Chain, "confirmed_on_real_code": false,
			"note": "frame obligation: the write is neither to memory owned by the call nor atomic; to observe it run the entry point from several goroutines under the race detector"}, "", " ")
		os.WriteFile(rp, data, 0o644)
		fmt.Printf("VIOLATION property=%s replay=%s no-failing-input-found\n", prop, rp)
	}
	total := len(entries)
	fmt.Printf("property=%s frame entries=%d clean=%d shared-objects-written=%d known=%d violations=%d rounds=%d wall=%.1fs\n", prop, total, clean, len(groups), len(kfSeen), violations, rounds, time.Since(t0).Seconds())
	var notes []string
	for n := range fe.notes {
		notes = append(notes, n)
	}
	sort.Strings(notes)
	if len(notes) > 12 {
		notes = notes[:12]
	}
	cov := map[string]any{
		"obligations": total + len(groups) - len(kfSeen), "discharged": total + len(groups) - len(kfSeen) - violations,
		"checker_cmd":  "/verif/bin/govc frame -prop " + prop + " -tier " + tier,
		"trusted_base": []string{"sync.Pool Get/Put and sync/atomic operations are linearizable hand-off points", "go/ssa call graph (CHA over module implementations for interface calls)", "govc frame engine (field-sensitive, index-insensitive, paths truncated at depth 5)"},
		"entry_points": total, "entries_clean": clean, "functions_summarised": len(fns), "fixpoint_rounds": rounds,
		"known_findings_seen": len(kfSeen), "samples": samples, "unresolved_dynamic_calls": notes,
	}
	ev := evidence{PropertyID: prop, Tier: tier, Seed: 0, Level: "proof", Coverage: cov, WallS: round3(time.Since(t0).Seconds()), Violations: violations,
		Assumptions: []string{"user callbacks (repl functions, iterator yield) are outside the frame contract", "pointer identity through unsafe/reflect is not followed", "atomic operations and sync.Pool are assumed to synchronise as documented", "the analysis decides the ownership discipline (no unsynchronised write to shared memory), not interleavings"}}
	data, _ := json.MarshalIndent(ev, "", " ")
	os.MkdirAll(filepath.Join(verifDir, "evidence"), 0o755)
	os.WriteFile(filepath.Join(verifDir, "evidence", prop+".json"), data, 0o644)
	if os.Getenv("GOVC_FRAME_DUMP") != "" {
		fd, _ := json.MarshalIndent(findings, "", " ")
		os.WriteFile(os.Getenv("GOVC_FRAME_DUMP"), fd, 0o644)
	}
	if violations > 0 {
		return 1
	}
	return 0
}

// sharedObject names the shared object a write lands in: the field chain below the Regex/Engine receiver, cut
// after the first two field names (e.g. "pikevm.internalState", "dfa.pikevm", "compositeSearcher.matchLengths").
func sharedObject(o origin, root string) string {
	if o.kind == oGlobal {
		return "global " + o.name
	}
	if root != "shared receiver" {
		return root
	}
	var parts []string
	for _, c := range strings.Split(strings.TrimPrefix(o.path, "."), ".") {
		if c == "*" || c == "" || c == "engine" {
			continue
		}
		parts = append(parts, c)
		if len(parts) == 2 {
			break
		}
	}
	return strings.Join(parts, ".")
}

func siteOf(step string) string {
	// "store at file:line in fn" -> "file:line fn"; keep the function (stable) and drop the line (unstable)
	if i := strings.Index(step, " in "); i >= 0 {
		return "in " + step[i+4:]
	}
	if i := strings.Index(step, " calls "); i >= 0 {
		j := strings.LastIndex(step, " at ")
		if j > i {
			return step[:j]
		}
	}
	return step
}

func (k *knownFindings) matchPrefix(prop, key string) *knownFinding {
	for i := range k.list {
		f := &k.list[i]
		if f.Status == "open" && f.Property == prop && strings.Contains(key, f.Obligation) {
			return f
		}
	}
	return nil
}
