package main

// Evaluation of contract expressions into SMT terms.

import (
	"fmt"
	"strconv"
	"go/constant"
	"go/token"
	"go/types"
	"math/big"
	"strings"

	"golang.org/x/tools/go/ssa"
)

type Ctx struct {
	disc  map[string]map[string]int // discovery pass: bound SMT variable -> slice offset term -> uses
	bound []string
	st    *State
	old   *State
	vars  map[string]Val
	oldV  map[string]Val // values of names inside old(): params at entry
	pkg   *types.Package
	scope func(name string) (Val, bool)
}

func (g *Gen) pkg() *types.Package {
	if g.fn != nil && g.fn.Pkg != nil {
		return g.fn.Pkg.Pkg
	}
	if g.fn != nil && g.fn.Parent() != nil {
		return g.fn.Parent().Pkg.Pkg
	}
	return g.specPkg
}

// context at function entry: params are entry values
func (g *Gen) ctxEntry() *Ctx {
	return &Ctx{st: g.entry, old: g.entry, vars: g.params, oldV: g.params, pkg: g.pkg()}
}

// context at the current program point: locals by scope, params by current cell value
func (g *Gen) ctxHere() *Ctx {
	pos := g.curPos
	st := g.st
	vars := map[string]Val{}
	for k, v := range g.ghostVars() {
		vars[k] = v
	}
	return &Ctx{st: st, old: g.entry, vars: vars, oldV: g.params, pkg: g.pkg(), scope: func(name string) (Val, bool) {
		return g.localByName(st, name, pos)
	}}
}

// ---- function-level ghost variables ----
// A ghost is one SMT constant per component; `ghost x = e` fixes its value on paths where no re-assignment was
// executed, `after call N: ghost x = e` fixes it on the paths through that call (single assignment outside loops).
type fnGhost struct {
	val      Val
	def      Val    // value at entry
	assigned []Term // reach conditions of the re-assignments seen so far
}

func (g *Gen) ghostVars() map[string]Val {
	if g.con == nil || len(g.con.Ghost) == 0 {
		return nil
	}
	if g.fnGhosts == nil {
		g.fnGhosts = map[string]*fnGhost{}
		cx := &Ctx{st: g.entry, old: g.entry, vars: map[string]Val{}, oldV: g.params, pkg: g.pkg()}
		for k, v := range g.params {
			cx.vars[k] = v
		}
		g.gvDef = map[string]Val{}
		for _, gd := range g.con.Ghost {
			def := g.evalSpec(gd.Expr, cx)
			if def.T == nil {
				def = Val{T: types.Typ[types.Int], C: []Term{g.unifyTo(def.C[0], g.intRep())}}
			}
			if gd.Var {
				g.gvDef[gd.Name] = def
				continue
			}
			v := Val{T: def.T}
			for _, c := range def.C {
				v.C = append(v.C, g.fresh("gh_"+gd.Name, c.Sort))
			}
			g.fnGhosts[gd.Name] = &fnGhost{val: v, def: def}
		}
	}
	out := map[string]Val{}
	for k, gh := range g.fnGhosts {
		out[k] = gh.val
	}
	for k, def := range g.gvDef {
		if v, ok := g.st.gv[k]; ok && g.st != nil {
			out[k] = v
		} else {
			out[k] = def
		}
	}
	return out
}

// gvCur: current value of a mutable ghost in a state
func (g *Gen) gvCur(st *State, name string) Val {
	if v, ok := st.gv[name]; ok {
		return v
	}
	return g.gvDef[name]
}

func (g *Gen) assignGhost(name string, v Val) {
	g.ghostVars()
	if def, ok := g.gvDef[name]; ok {
		if len(v.C) != len(def.C) {
			oos("ghost %s: shape mismatch", name)
		}
		nv := Val{T: def.T}
		for i := range v.C {
			nv.C = append(nv.C, g.define("gv_"+name, g.unifyTo(v.C[i], def.C[i].Sort)))
		}
		if g.st.gv == nil {
			g.st.gv = map[string]Val{}
		}
		g.st.gv[name] = nv
		return
	}
	gh := g.fnGhosts[name]
	if gh == nil {
		oos("ghost %s is not declared (ghost %s = <entry value>)", name, name)
	}
	if len(v.C) != len(gh.val.C) {
		oos("ghost %s: shape mismatch", name)
	}
	for i := range v.C {
		g.assumeReach(eq(gh.val.C[i], g.unifyTo(v.C[i], gh.val.C[i].Sort)))
	}
	gh.assigned = append(gh.assigned, g.reach)
}

// ghostDefaults: on paths that executed no re-assignment the ghost has its entry value (asserted at returns)
func (g *Gen) ghostDefaults() {
	for _, k := range sortedKeys(g.fnGhosts) {
		gh := g.fnGhosts[k]
		none := tBool(true)
		if len(gh.assigned) > 0 {
			none = not(or(gh.assigned...))
		}
		for i := range gh.val.C {
			g.assumeReach(implies(none, eq(gh.val.C[i], gh.def.C[i])))
		}
	}
}

func (g *Gen) ctxReturn(res []Val) *Ctx {
	vars := map[string]Val{}
	for k, v := range g.params {
		vars[k] = v
	}
	sig := g.fn.Signature
	if len(res) == 1 {
		vars["result"] = res[0]
	}
	for i, r := range res {
		vars[fmt.Sprintf("result%d", i)] = r
		if sig.Results().At(i).Name() != "" && sig.Results().At(i).Name() != "_" {
			vars[sig.Results().At(i).Name()] = r
		}
	}
	for k, v := range g.ghostVars() {
		vars[k] = v
	}
	g.ghostDefaults()
	return &Ctx{st: g.st, old: g.entry, vars: vars, oldV: g.params, pkg: g.pkg()}
}

// localByName finds the local variable `name` visible at the loop / program point and returns its current value.
func (g *Gen) localByName(st *State, name string, pos token.Pos) (Val, bool) {
	if name == "rangelen" && g.curLoop != nil {
		// the (fixed) length a range loop iterates to: operand of the header comparison `index < len`
		for _, ins := range g.curLoop.header.Instrs {
			if b, ok := ins.(*ssa.BinOp); ok && b.Op == token.LSS {
				if sv, ok := g.env[b.Y]; ok && sv.A == nil {
					return sv.V, true
				}
				if c, ok := b.Y.(*ssa.Const); ok {
					return g.constVal(c), true
				}
			}
		}
		return Val{}, false
	}
	var best *ssa.Alloc
	var bestSV *SV
	var bestExt token.Pos
	for v, sv := range g.env {
		al, ok := v.(*ssa.Alloc)
		if !ok || al.Comment != name {
			continue
		}
		if name == "rangeindex" && g.curLoop != nil {
			// the hidden index of the range loop whose header stores it
			found := false
			for _, ins := range g.curLoop.header.Instrs {
				if st, ok := ins.(*ssa.Store); ok && st.Addr == v {
					found = true
				}
			}
			if !found {
				continue
			}
		}
		// choose the declaration that is in scope: the latest declared before pos whose scope contains pos
		if !g.inScope(al, pos) {
			continue
		}
		ext := g.scopeExtent(al)
		if best == nil || ext < bestExt || (ext == bestExt && al.Pos() > best.Pos()) {
			best, bestSV, bestExt = al, sv, ext
		}
	}
	if best == nil {
		if v, ok := g.params[name]; ok {
			return v, true
		}
		return Val{}, false
	}
	if ia, ok := g.cellAddr[best]; ok {
		return Val{T: best.Type().(*types.Pointer).Elem(), C: []Term{tInt(0)}, IA: ia}, true
	}
	if bestSV.A != nil {
		if bestSV.A.K == aElem && bestSV.A.Idx.Sort == "ARRAY" {
			save := g.st
			g.st = st
			v := g.loadArrayAlloc(bestSV.A)
			g.st = save
			return v, true
		}
		return g.loadAddr(st, bestSV.A), true
	}
	// heap-allocated local (escaping): bestSV.V is the ref
	return g.loadAddr(st, g.refAddr(bestSV.V.C[0], g.allocType(best))), true
}

func (g *Gen) inScope(al *ssa.Alloc, pos token.Pos) bool {
	if !al.Pos().IsValid() || !pos.IsValid() {
		return true
	}
	if al.Pos() > pos {
		return false
	}
	sc := g.p.scopeOf(g.fn, al.Pos())
	if sc == nil {
		return true
	}
	return sc.Pos() <= pos && pos < sc.End()
}

func (g *Gen) scopeExtent(al *ssa.Alloc) token.Pos {
	if !al.Pos().IsValid() {
		return 1 << 30
	}
	sc := g.p.scopeOf(g.fn, al.Pos())
	if sc == nil {
		return 1 << 30
	}
	return sc.End() - sc.Pos()
}

func (g *Gen) evalBool(e *E, cx *Ctx, c *Clause) Term {
	defer func() {
		if r := recover(); r != nil {
			if o, ok := r.(OOS); ok {
				where := ""
				if c != nil {
					where = c.Line + ": "
				}
				panic(OOS{where + "in contract expression `" + e.String() + "`: " + o.msg})
			}
			panic(r)
		}
	}()
	v := g.evalSpec(e, cx)
	if len(v.C) != 1 || v.C[0].Sort != SBool {
		oos("expression is not boolean")
	}
	return v.C[0]
}

func (g *Gen) toSpecInt(v Val) Term {
	if len(v.C) != 1 {
		oos("integer expected")
	}
	return v.C[0]
}

func isUntyped(v Val) bool { return v.T == nil }

func isNilVal(v Val) bool { return v.T == types.Typ[types.UntypedNil] }

func (g *Gen) specTypeByName(name string, pkg *types.Package) types.Type {
	switch name {
	case "int":
		return types.Typ[types.Int]
	case "bool":
		return types.Typ[types.Bool]
	case "byte", "uint8":
		return types.Typ[types.Uint8]
	case "uint16":
		return types.Typ[types.Uint16]
	case "uint32":
		return types.Typ[types.Uint32]
	case "uint64":
		return types.Typ[types.Uint64]
	case "uint":
		return types.Typ[types.Uint]
	case "int32", "rune":
		return types.Typ[types.Int32]
	case "int64":
		return types.Typ[types.Int64]
	case "int8":
		return types.Typ[types.Int8]
	case "int16":
		return types.Typ[types.Int16]
	case "string":
		return types.Typ[types.String]
	case "bytes":
		return types.NewSlice(types.Typ[types.Uint8])
	}
	if strings.HasPrefix(name, "[]") {
		et := g.specTypeByName(name[2:], pkg)
		if et == nil {
			return nil
		}
		return types.NewSlice(et)
	}
	if strings.HasPrefix(name, "*") {
		et := g.specTypeByName(name[1:], pkg)
		if et == nil {
			return nil
		}
		return types.NewPointer(et)
	}
	if strings.HasPrefix(name, "[") {
		if i := strings.Index(name, "]"); i > 1 {
			n, err := strconv.Atoi(name[1:i])
			et := g.specTypeByName(name[i+1:], pkg)
			if err == nil && et != nil {
				return types.NewArray(et, int64(n))
			}
		}
		return nil
	}
	if pkg != nil {
		if i := strings.Index(name, "."); i > 0 {
			for _, imp := range pkg.Imports() {
				if imp.Name() == name[:i] {
					if tn, ok := imp.Scope().Lookup(name[i+1:]).(*types.TypeName); ok {
						return tn.Type()
					}
				}
			}
			return nil
		}
		if o := pkg.Scope().Lookup(name); o != nil {
			if tn, ok := o.(*types.TypeName); ok {
				return tn.Type()
			}
		}
	}
	return nil
}

func (g *Gen) evalSpec(e *E, cx *Ctx) Val {
	switch e.Op {
	case "lit":
		return Val{T: nil, C: []Term{{intLit(e.Val), SInt}}}
	case "str":
		return g.stringConst(e.Str, types.Typ[types.String])
	case "id":
		return g.evalIdent(e.Name, cx)
	case "old":
		ncx := *cx
		ncx.st = cx.old
		ncx.vars = cx.oldV
		ncx.scope = nil
		return g.evalSpec(e.Args[0], &ncx)
	case "field":
		// package-qualified constant?
		if e.Args[0].Op == "id" {
			if _, ok := g.lookupName(e.Args[0].Name, cx); !ok {
				if v, ok := g.qualifiedConst(e.Args[0].Name, e.Name, cx); ok {
					return v
				}
			}
		}
		x := g.evalSpec(e.Args[0], cx)
		return g.specField(x, e.Name, cx)
	case "index":
		x := g.evalSpec(e.Args[0], cx)
		i := g.evalSpec(e.Args[1], cx)
		return g.specIndex(x, i, cx)
	case "slice":
		x := g.evalSpec(e.Args[0], cx)
		var lo, hi Term
		ir := g.intRep()
		lo = litOfSort(bigZero, ir)
		if e.Args[1] != nil {
			lo = g.specIdx(g.evalSpec(e.Args[1], cx))
		}
		if isString(x.T) {
			hi = x.C[2]
			if e.Args[2] != nil {
				hi = g.specIdx(g.evalSpec(e.Args[2], cx))
			}
			return Val{T: x.T, C: []Term{x.C[0], g.addI(x.C[1], lo), g.subI(hi, lo)}}
		}
		if _, ok := x.T.Underlying().(*types.Slice); !ok {
			oos("slice expression on %v", x.T)
		}
		if _, isArr := x.T.(specArrType); isArr {
			hi = x.C[2]
			if e.Args[2] != nil {
				hi = g.specIdx(g.evalSpec(e.Args[2], cx))
			}
			return Val{T: x.T, C: []Term{x.C[0], g.addI(x.C[1], lo), g.subI(hi, lo)}}
		}
		hi = x.C[2]
		if e.Args[2] != nil {
			hi = g.specIdx(g.evalSpec(e.Args[2], cx))
		}
		return Val{T: x.T, C: []Term{x.C[0], g.addI(x.C[1], lo), g.subI(hi, lo), g.subI(x.C[3], lo)}}
	case "un":
		x := g.evalSpec(e.Args[0], cx)
		switch e.Name {
		case "!":
			return Val{T: types.Typ[types.Bool], C: []Term{not(x.C[0])}}
		case "-":
			if x.C[0].Sort == SInt {
				return Val{T: x.T, C: []Term{{app("-", x.C[0].S), SInt}}}
			}
			return Val{T: x.T, C: []Term{{app("bvneg", x.C[0].S), x.C[0].Sort}}}
		case "^":
			if isBV(x.C[0].Sort) {
				return Val{T: x.T, C: []Term{{app("bvnot", x.C[0].S), x.C[0].Sort}}}
			}
			oos("^ on mathematical integer")
		case "*":
			if pt, ok := x.T.Underlying().(*types.Pointer); ok {
				return g.loadAddrPure(cx.st, g.refAddr(x.C[0], pt.Elem()))
			}
			oos("dereference of non-pointer in spec")
		}
	case "bin":
		return g.specBin(e, cx)
	case "forall", "exists":
		ncx := *cx
		ncx.vars = map[string]Val{}
		for k, v := range cx.vars {
			ncx.vars[k] = v
		}
		// old() inside quantifier must still see the bound variables
		ncx.oldV = map[string]Val{}
		for k, v := range cx.oldV {
			ncx.oldV[k] = v
		}
		var decls []string
		var guards []Term
		var qterms []Term
		var qtypes []types.Type
		var qnames []string
		sliceVars := map[string]Val{}
		for _, q := range e.Vars {
			t := g.specTypeByName(q.Type, cx.pkg)
			if t == nil {
				oos("unknown type %q of quantified variable", q.Type)
			}
			lay := g.layout(t)
			if sl, isSlice := t.Underlying().(*types.Slice); isSlice || isString(t) {
				// a quantified slice/string is an (array, offset, length) window
				es := g.byteSort()
				if isSlice {
					el := g.layout(sl.Elem())
					if len(el) != 1 {
						oos("quantified slice of composite elements")
					}
					es = el[0].Sort
				}
				g.n++
				base := fmt.Sprintf("%s!q%d", q.Name, g.n)
				arr := Term{smtName(base + ".arr"), arrSort(g.intRep(), es)}
				off := Term{smtName(base + ".off"), g.intRep()}
				ln := Term{smtName(base + ".len"), g.intRep()}
				decls = append(decls, fmt.Sprintf("(%s %s) (%s %s) (%s %s)", arr.S, arr.Sort, off.S, off.Sort, ln.S, ln.Sort))
				if ln.Sort == SInt {
					guards = append(guards, Term{app("<=", "0", ln.S), SBool}, Term{app("<=", "0", off.S), SBool})
				}
				sliceVars[q.Name] = Val{T: specArrType{t}, C: []Term{arr, off, ln}}
				continue
			}
			if len(lay) != 1 {
				oos("quantified variable must be scalar")
			}
			g.n++
			name := fmt.Sprintf("%s!q%d", q.Name, g.n)
			tv := Term{smtName(name), lay[0].Sort}
			decls = append(decls, fmt.Sprintf("(%s %s)", tv.S, tv.Sort))
			qterms = append(qterms, tv)
			qtypes = append(qtypes, t)
			qnames = append(qnames, q.Name)
			if ii, ok := intInfo(t); ok && tv.Sort == SInt && q.Type != "int" {
				guards = append(guards, rangeFact(tv, ii))
			}
		}
		bind := func(shift map[string]Term) {
			for i, qn := range qnames {
				tv := qterms[i]
				if s, ok := shift[tv.S]; ok {
					tv = linNorm(Term{app("-", tv.S, s.S), SInt})
				}
				v := Val{T: qtypes[i], C: []Term{tv}}
				ncx.vars[qn] = v
				ncx.oldV[qn] = v
			}
			for qn, v := range sliceVars {
				ncx.vars[qn] = v
				ncx.oldV[qn] = v
			}
		}
		// discovery passes: find which slice offset each bound variable is used with and shift the variable to
		// absolute array positions. Offsets may depend on variables decided in an earlier round (a[b][j]: the offset
		// of the inner slice depends on b), so the passes are repeated until nothing changes.
		shift := map[string]Term{}
		decided := map[string]bool{}
		for round := 0; round <= len(qterms); round++ {
			ncx.disc = map[string]map[string]int{}
			ncx.bound = append([]string(nil), cx.bound...)
			for _, tv := range qterms {
				ncx.bound = append(ncx.bound, tv.S)
			}
			bind(shift)
			g.evalSpec(e.Args[0], &ncx)
			changed := false
			prev := map[string]bool{}
			for k, v := range decided {
				prev[k] = v
			}
			for _, tv := range qterms {
				if decided[tv.S] || tv.Sort != SInt {
					continue
				}
				best, bestN := "", 0
				for off, n := range ncx.disc[tv.S] {
					if off != "0" && (n > bestN || (n == bestN && off < best)) {
						best, bestN = off, n
					}
				}
				if bestN == 0 {
					continue
				}
				ok := !strings.Contains(best, tv.S)
				for _, other := range qterms {
					if other.S != tv.S && strings.Contains(best, other.S) && !prev[other.S] {
						ok = false
					}
				}
				if ok {
					shift[tv.S] = Term{best, SInt}
					decided[tv.S] = true
					changed = true
				}
			}
			if !changed {
				// variables without a usable offset in this round are final as they are; one more round lets
				// variables that depend on them settle
				progress := false
				for _, tv := range qterms {
					if !decided[tv.S] {
						dep := false
						for off := range ncx.disc[tv.S] {
							for _, other := range qterms {
								if other.S != tv.S && strings.Contains(off, other.S) && !decided[other.S] {
									dep = true
								}
							}
						}
						if !dep {
							decided[tv.S] = true
							progress = true
						}
					}
				}
				if !progress {
					break
				}
			}
		}
		ncx.disc = cx.disc
		ncx.bound = append([]string(nil), cx.bound...)
		for _, tv := range qterms {
			ncx.bound = append(ncx.bound, tv.S)
		}
		bind(shift)
		body := g.evalSpec(e.Args[0], &ncx)
		if len(body.C) != 1 || body.C[0].Sort != SBool {
			oos("quantifier body is not boolean")
		}
		b := body.C[0]
		if e.Op == "forall" {
			b = implies(and(guards...), b)
			return Val{T: types.Typ[types.Bool], C: []Term{{fmt.Sprintf("(forall (%s) %s)", strings.Join(decls, " "), b.S), SBool}}}
		}
		b = and(append(guards, b)...)
		return Val{T: types.Typ[types.Bool], C: []Term{{fmt.Sprintf("(exists (%s) %s)", strings.Join(decls, " "), b.S), SBool}}}
	case "call":
		return g.specCall(e, cx)
	}
	oos("cannot evaluate %s", e.String())
	return Val{}
}

func (g *Gen) lookupName(name string, cx *Ctx) (Val, bool) {
	if v, ok := cx.vars[name]; ok {
		return v, true
	}
	if cx.scope != nil {
		if v, ok := cx.scope(name); ok {
			return v, true
		}
	}
	return Val{}, false
}

func (g *Gen) evalIdent(name string, cx *Ctx) Val {
	switch name {
	case "true":
		return Val{T: types.Typ[types.Bool], C: []Term{tBool(true)}}
	case "false":
		return Val{T: types.Typ[types.Bool], C: []Term{tBool(false)}}
	case "nil":
		return Val{T: types.Typ[types.UntypedNil], C: []Term{tInt(0)}}
	}
	if v, ok := g.lookupName(name, cx); ok {
		return v
	}
	// package-level constant or variable
	if cx.pkg != nil {
		if o := cx.pkg.Scope().Lookup(name); o != nil {
			return g.objVal(o, cx)
		}
	}
	oos("unknown identifier %q", name)
	return Val{}
}

func (g *Gen) objVal(o types.Object, cx *Ctx) Val {
	switch o := o.(type) {
	case *types.Const:
		t := o.Type()
		if b, ok := t.Underlying().(*types.Basic); ok {
			switch {
			case b.Info()&types.IsBoolean != 0:
				return Val{T: types.Typ[types.Bool], C: []Term{tBool(constant.BoolVal(o.Val()))}}
			case b.Info()&types.IsInteger != 0:
				bi, ok := constant.Val(constant.ToInt(o.Val())).(*big.Int)
				if !ok {
					i64, _ := constant.Int64Val(constant.ToInt(o.Val()))
					bi = big.NewInt(i64)
				}
				if b.Info()&types.IsUntyped != 0 {
					return Val{T: nil, C: []Term{{intLit(bi), SInt}}}
				}
				ii, _ := intInfo(t)
				return Val{T: t, C: []Term{litOfSort(bi, g.mode.intSort(ii))}}
			case b.Info()&types.IsString != 0:
				return g.stringConst(constant.StringVal(o.Val()), t)
			}
		}
	case *types.Var:
		// package-level variable: global family
		a := &Addr{K: aGlobal, Fam: "G:" + strings.TrimPrefix(o.Pkg().Path(), modPath+"/") + "." + o.Name(), T: o.Type()}
		return g.loadAddr(cx.st, a)
	}
	oos("unsupported package-level object %s", o.Name())
	return Val{}
}

func (g *Gen) qualifiedConst(pkgName, name string, cx *Ctx) (Val, bool) {
	if cx.pkg == nil {
		return Val{}, false
	}
	for _, imp := range cx.pkg.Imports() {
		if imp.Name() == pkgName {
			if o := imp.Scope().Lookup(name); o != nil {
				return g.objVal(o, cx), true
			}
		}
	}
	return Val{}, false
}

func (g *Gen) specIdx(v Val) Term {
	if isUntyped(v) {
		if g.intRep() == SInt {
			return v.C[0]
		}
		oos("untyped non-literal index in bv mode")
	}
	return g.idxTerm(v)
}

func (g *Gen) specField(x Val, name string, cx *Ctx) Val {
	t := x.T
	if t == nil {
		oos("field %s of untyped value", name)
	}
	// auto-deref pointer
	if pt, ok := t.Underlying().(*types.Pointer); ok {
		a := g.refAddr(x.C[0], pt.Elem())
		if x.IA != nil {
			cp := *x.IA
			a = &cp
		}
		stt, ok := pt.Elem().Underlying().(*types.Struct)
		if !ok {
			oos("field %s of pointer to non-struct", name)
		}
		for i := 0; i < stt.NumFields(); i++ {
			if stt.Field(i).Name() == name {
				fa := *a
				fa.Path = a.Path + "." + name
				fa.T = stt.Field(i).Type()
				return g.loadAddrPure(cx.st, &fa)
			}
		}
		// embedded promotion (one level)
		for i := 0; i < stt.NumFields(); i++ {
			if stt.Field(i).Embedded() {
				fa := *a
				fa.Path = "." + stt.Field(i).Name()
				fa.T = stt.Field(i).Type()
				inner := g.loadAddrPure(cx.st, &fa)
				if v, ok := g.trySpecField(inner, name, cx); ok {
					return v
				}
			}
		}
		oos("no field %s in %s", name, pt.Elem())
	}
	if v, ok := g.trySpecField(x, name, cx); ok {
		return v
	}
	if tup, ok := t.(*types.Tuple); ok {
		_ = tup
	}
	oos("no field %s in %s", name, t)
	return Val{}
}

func (g *Gen) trySpecField(x Val, name string, cx *Ctx) (Val, bool) {
	stt, ok := x.T.Underlying().(*types.Struct)
	if !ok {
		if _, isPtr := x.T.Underlying().(*types.Pointer); isPtr {
			defer func() { recover() }()
			return g.specField(x, name, cx), true
		}
		return Val{}, false
	}
	for i := 0; i < stt.NumFields(); i++ {
		if stt.Field(i).Name() == name {
			return g.fieldOf(x, i), true
		}
	}
	return Val{}, false
}

func (g *Gen) specIndex(x, i Val, cx *Ctx) Val {
	if x.T == nil {
		oos("index of untyped value")
	}
	iv := g.specIdx(i)
	if pt, ok := x.T.Underlying().(*types.Pointer); ok {
		if _, isArr := pt.Elem().Underlying().(*types.Array); isArr {
			x = g.loadAddrPure(cx.st, g.refAddr(x.C[0], pt.Elem()))
		}
	}
	if _, isArr := x.T.(specArrType); isArr {
		g.recordDisc(cx, x, iv)
		return Val{T: elemTypeOf(x.T), C: []Term{sel(x.C[0], g.addI(x.C[1], iv))}}
	}
	if len(x.C) >= 3 {
		g.recordDisc(cx, x, iv)
	}
	switch xt := x.T.Underlying().(type) {
	case *types.Slice:
		a := &Addr{K: aElem, Fam: elemFam(xt.Elem()), Ref: x.C[0], Idx: g.addI(x.C[1], iv), T: xt.Elem()}
		return g.loadAddrPure(cx.st, a)
	case *types.Basic:
		if isString(x.T) {
			fam := elemFam(types.Typ[types.Uint8])
			f := g.famTerm(cx.st, fam, arrSort(SInt, arrSort(g.intRep(), g.byteSort())))
			return Val{T: types.Typ[types.Uint8], C: []Term{sel(sel(f, x.C[0]), g.addI(x.C[1], iv))}}
		}
	case *types.Array:
		res := Val{T: xt.Elem()}
		for _, c := range x.C {
			res.C = append(res.C, sel(c, iv))
		}
		return res
	}
	oos("cannot index %s", x.T)
	return Val{}
}

// loadAddrPure loads without emitting side assumptions (safe under quantifiers)
func (g *Gen) loadAddrPure(st *State, a *Addr) Val {
	l := g.layout(a.T)
	v := Val{T: a.T}
	for _, c := range l {
		path := a.Path + c.Path
		ss := g.storedSort(a, c)
		var root Term
		switch a.K {
		case aHeap:
			g.noteLeaf(a.Fam+path, c)
			root = sel(g.famTerm(st, a.Fam+path, arrSort(SInt, ss)), a.Ref)
		case aElem:
			g.noteLeaf(a.Fam+path, c)
			root = sel(sel(g.famTerm(st, a.Fam+path, arrSort(SInt, arrSort(g.intRep(), ss))), a.Ref), a.Idx)
		default:
			oos("loadAddrPure kind")
		}
		for _, ix := range a.AIdx {
			root = sel(root, ix)
		}
		v.C = append(v.C, root)
	}
	return v
}

func (g *Gen) specBin(e *E, cx *Ctx) Val {
	op := e.Name
	boolT := types.Typ[types.Bool]
	switch op {
	case "&&", "||", "==>", "<==>":
		a := g.evalSpec(e.Args[0], cx)
		b := g.evalSpec(e.Args[1], cx)
		if a.C[0].Sort != SBool || b.C[0].Sort != SBool {
			oos("boolean operands expected for %s", op)
		}
		switch op {
		case "&&":
			return Val{T: boolT, C: []Term{and(a.C[0], b.C[0])}}
		case "||":
			return Val{T: boolT, C: []Term{or(a.C[0], b.C[0])}}
		case "==>":
			return Val{T: boolT, C: []Term{implies(a.C[0], b.C[0])}}
		default:
			return Val{T: boolT, C: []Term{eq(a.C[0], b.C[0])}}
		}
	}
	a := g.evalSpec(e.Args[0], cx)
	b := g.evalSpec(e.Args[1], cx)
	if (op == "==" || op == "!=") && (isNilVal(a) != isNilVal(b)) {
		// slice/pointer/interface compared with nil: Go compares the data pointer only
		x := a
		if isNilVal(a) {
			x = b
		}
		if x.T != nil {
			if _, isSlice := x.T.Underlying().(*types.Slice); isSlice {
				r := eq(x.C[0], tInt(0))
				if op == "!=" {
					r = not(r)
				}
				return Val{T: boolT, C: []Term{r}}
			}
		}
	}
	a, b = g.unify(a, b)
	switch op {
	case "==", "!=":
		if len(a.C) != len(b.C) {
			oos("comparison of values with different shapes (%v vs %v)", a.T, b.T)
		}
		var parts []Term
		for i := range a.C {
			if a.C[i].Sort != b.C[i].Sort {
				oos("comparison of different sorts %s vs %s in %s", a.C[i].Sort, b.C[i].Sort, e.String())
			}
			parts = append(parts, eq(a.C[i], b.C[i]))
		}
		r := and(parts...)
		if op == "!=" {
			r = not(r)
		}
		return Val{T: boolT, C: []Term{r}}
	}
	if len(a.C) != 1 || len(b.C) != 1 {
		oos("scalar operands expected for %s", op)
	}
	x, y := a.C[0], b.C[0]
	if x.Sort != y.Sort {
		oos("operands of %s have different sorts (%s, %s) in %s", op, x.Sort, y.Sort, e.String())
	}
	signed := true
	if a.T != nil {
		if ii, ok := intInfo(a.T); ok {
			signed = ii.Signed
		}
	} else if b.T != nil {
		if ii, ok := intInfo(b.T); ok {
			signed = ii.Signed
		}
	}
	rt := a.T
	if rt == nil {
		rt = b.T
	}
	if x.Sort == SInt {
		switch op {
		case "<", "<=", ">", ">=":
			return Val{T: boolT, C: []Term{{app(op, x.S, y.S), SBool}}}
		case "+", "-", "*":
			// mathematical in specifications
			return Val{T: specIntType(rt), C: []Term{{app(op, x.S, y.S), SInt}}}
		case "/":
			return Val{T: specIntType(rt), C: []Term{{app("go_quo", x.S, y.S), SInt}}}
		case "%":
			return Val{T: specIntType(rt), C: []Term{{app("go_rem", x.S, y.S), SInt}}}
		}
		if cv, ok := parseIntLit(y.S); ok {
			if r, ok := intBitop(op, x.S, cv); ok {
				return Val{T: rt, C: []Term{{r, SInt}}}
			}
		}
		if cv, ok := parseIntLit(x.S); ok && op != "&^" {
			if r, ok := intBitop(op, y.S, cv); ok {
				return Val{T: rt, C: []Term{{r, SInt}}}
			}
		}
		oos("operator %s on mathematical integers (use arith mixed/bv)", op)
	}
	// bit-vectors
	cmp := map[string][2]string{"<": {"bvult", "bvslt"}, "<=": {"bvule", "bvsle"}, ">": {"bvugt", "bvsgt"}, ">=": {"bvuge", "bvsge"}}
	if c, ok := cmp[op]; ok {
		o := c[0]
		if signed {
			o = c[1]
		}
		return Val{T: boolT, C: []Term{{app(o, x.S, y.S), SBool}}}
	}
	ops := map[string]string{"+": "bvadd", "-": "bvsub", "*": "bvmul", "&": "bvand", "|": "bvor", "^": "bvxor", "<<": "bvshl"}
	if o, ok := ops[op]; ok {
		return Val{T: rt, C: []Term{{app(o, x.S, y.S), x.Sort}}}
	}
	switch op {
	case ">>":
		if signed {
			return Val{T: rt, C: []Term{{app("bvashr", x.S, y.S), x.Sort}}}
		}
		return Val{T: rt, C: []Term{{app("bvlshr", x.S, y.S), x.Sort}}}
	case "&^":
		return Val{T: rt, C: []Term{{app("bvand", x.S, app("bvnot", y.S)), x.Sort}}}
	case "/":
		if signed {
			return Val{T: rt, C: []Term{{app("bvsdiv", x.S, y.S), x.Sort}}}
		}
		return Val{T: rt, C: []Term{{app("bvudiv", x.S, y.S), x.Sort}}}
	case "%":
		if signed {
			return Val{T: rt, C: []Term{{app("bvsrem", x.S, y.S), x.Sort}}}
		}
		return Val{T: rt, C: []Term{{app("bvurem", x.S, y.S), x.Sort}}}
	}
	oos("unsupported operator %s", op)
	return Val{}
}

// in specifications Int-sorted arithmetic is mathematical: the result type is the unbounded spec integer
func specIntType(t types.Type) types.Type {
	if t == nil {
		return nil
	}
	return types.Typ[types.Int]
}

// unify adapts untyped literals / mathematical integers to the other operand's representation
func (g *Gen) unify(a, b Val) (Val, Val) {
	if len(a.C) != 1 || len(b.C) != 1 {
		// nil compared with slice/interface etc.
		if a.T != nil && b.T == types.Typ[types.UntypedNil] && len(a.C) > 1 {
			return a, g.zeroVal(a.T)
		}
		if b.T != nil && a.T == types.Typ[types.UntypedNil] && len(b.C) > 1 {
			return g.zeroVal(b.T), b
		}
		return a, b
	}
	x, y := a.C[0], b.C[0]
	if x.Sort == y.Sort {
		return a, b
	}
	conv := func(u Val, target string) Val {
		// u is Int-sorted, target a BV sort: only literals convert implicitly
		s := u.C[0].S
		if v, ok := parseIntLit(s); ok {
			return Val{T: u.T, C: []Term{litOfSort(v, target)}}
		}
		return Val{T: u.T, C: []Term{{app(fmt.Sprintf("(_ int2bv %d)", bvWidth(target)), s), target}}}
	}
	if x.Sort == SInt && isBV(y.Sort) {
		return Val{T: b.T, C: conv(a, y.Sort).C}, b
	}
	if y.Sort == SInt && isBV(x.Sort) {
		return a, Val{T: a.T, C: conv(b, x.Sort).C}
	}
	return a, b
}

func parseIntLit(s string) (*big.Int, bool) {
	neg := false
	if strings.HasPrefix(s, "(- ") && strings.HasSuffix(s, ")") {
		neg = true
		s = s[3 : len(s)-1]
	}
	v, ok := new(big.Int).SetString(s, 10)
	if !ok {
		return nil, false
	}
	if neg {
		v.Neg(v)
	}
	return v, true
}

func (g *Gen) specCall(e *E, cx *Ctx) Val {
	ir := g.intRep()
	arg := func(i int) Val { return g.evalSpec(e.Args[i], cx) }
	switch e.Name {
	case "len":
		x := arg(0)
		if x.T == nil {
			oos("len of untyped")
		}
		switch x.T.Underlying().(type) {
		case *types.Slice:
			return Val{T: types.Typ[types.Int], C: []Term{x.C[2]}}
		case *types.Basic:
			return Val{T: types.Typ[types.Int], C: []Term{x.C[2]}}
		case *types.Array:
			return Val{T: types.Typ[types.Int], C: []Term{litOfSort(bigInt(x.T.Underlying().(*types.Array).Len()), ir)}}
		}
		oos("len of %s", x.T)
	case "cap":
		x := arg(0)
		if _, ok := x.T.Underlying().(*types.Slice); ok {
			return Val{T: types.Typ[types.Int], C: []Term{x.C[3]}}
		}
		oos("cap of %s", x.T)
	case "ite":
		c := arg(0)
		a, b := g.unify(arg(1), arg(2))
		res := Val{T: a.T}
		if res.T == nil {
			res.T = b.T
		}
		for i := range a.C {
			res.C = append(res.C, ite(c.C[0], a.C[i], b.C[i]))
		}
		return res
	case "stringBytes": // the bytes of a string viewed as a []byte value (no copy): same base/off/len
		x := arg(0)
		if !isString(x.T) {
			oos("stringBytes of non-string")
		}
		return Val{T: types.NewSlice(types.Typ[types.Uint8]), C: []Term{x.C[0], x.C[1], x.C[2], x.C[2]}}
	case "base": // ghost: identity of the backing array of a slice
		x := arg(0)
		return Val{T: nil, C: []Term{x.C[0]}}
	case "off":
		x := arg(0)
		return Val{T: types.Typ[types.Int], C: []Term{x.C[1]}}
	case "fresh": // fresh(p): p was allocated during the call (not in the old state)
		x := arg(0)
		return Val{T: types.Typ[types.Bool], C: []Term{{app(">=", x.C[0].S, cx.old.alloc.S), SBool}}}
	case "allocated": // allocated(p): the object p refers to exists in the current state (so a later allocation differs from it)
		x := arg(0)
		return Val{T: types.Typ[types.Bool], C: []Term{{app("<", x.C[0].S, cx.st.alloc.S), SBool}}}
	case "sameslice":
		a, b := arg(0), arg(1)
		var ps []Term
		for i := range a.C {
			ps = append(ps, eq(a.C[i], b.C[i]))
		}
		return Val{T: types.Typ[types.Bool], C: []Term{and(ps...)}}
	case "min", "max":
		a, b := g.unify(arg(0), arg(1))
		var c Term
		if a.C[0].Sort == SInt {
			c = Term{app("<=", a.C[0].S, b.C[0].S), SBool}
		} else {
			c = Term{app("bvsle", a.C[0].S, b.C[0].S), SBool}
		}
		if e.Name == "max" {
			c = not(c)
		}
		return Val{T: a.T, C: []Term{ite(c, a.C[0], b.C[0])}}
	}
	// conversions
	if t := g.specTypeByName(e.Name, cx.pkg); t != nil && len(e.Args) == 1 {
		x := arg(0)
		ti, tok := intInfo(t)
		if tok {
			if x.T == nil {
				return Val{T: t, C: []Term{g.unifyTo(x.C[0], g.mode.intSort(ti))}}
			}
			fi, fok := intInfo(x.T)
			if fok {
				// spec-level conversion to Int sort is value preserving (mathematical)
				ts := g.mode.intSort(ti)
				if x.C[0].Sort == SInt && ts == SInt {
					return Val{T: t, C: x.C}
				}
				return Val{T: t, C: []Term{convertInt(x.C[0], fi, ti, ts)}}
			}
		}
		if len(g.layout(t)) == len(x.C) {
			return Val{T: t, C: x.C}
		}
		oos("unsupported spec conversion %s", e.Name)
	}
	// spec functions
	if sf := g.p.cs.Specs[e.Name]; sf != nil {
		return g.applySpecFunc(sf, e, cx)
	}
	// builtin trusted pure functions defined in the prelude
	if v, ok := g.builtinSpec(e, cx); ok {
		return v
	}
	oos("unknown spec function %q", e.Name)
	return Val{}
}

func (g *Gen) unifyTo(t Term, sort string) Term {
	if t.Sort == sort {
		return t
	}
	if t.Sort == SInt && isBV(sort) {
		if v, ok := parseIntLit(t.S); ok {
			return litOfSort(v, sort)
		}
		return Term{app(fmt.Sprintf("(_ int2bv %d)", bvWidth(sort)), t.S), sort}
	}
	oos("cannot convert %s to %s", t.Sort, sort)
	return t
}

// spec functions become SMT functions over the flattened arguments plus the heap families they read.
// To keep this simple a spec function is *inlined* (macro-expanded) unless it is recursive or uninterpreted.
func (g *Gen) applySpecFunc(sf *SpecFunc, e *E, cx *Ctx) Val {
	if len(e.Args) != len(sf.Params) {
		oos("spec function %s: wrong argument count", sf.Name)
	}
	pkg := cx.pkg
	if sf.Pkg != "" {
		if p := g.p.typesPkg(sf.Pkg); p != nil {
			pkg = p
		}
	}
	var args []Val
	for i, a := range e.Args {
		v := g.evalSpec(a, cx)
		pt := g.specTypeByName(sf.Params[i].Type, pkg)
		if pt == nil {
			oos("spec function %s: unknown parameter type %s", sf.Name, sf.Params[i].Type)
		}
		if v.T == nil {
			lay := g.layout(pt)
			v = Val{T: pt, C: []Term{g.unifyTo(v.C[0], lay[0].Sort)}}
		}
		if _, isArr := v.T.(specArrType); isArr {
			args = append(args, v)
			continue
		}
		args = append(args, Val{T: pt, C: v.C})
	}
	if sf.Uninter || sf.Rec || sf.Opaque {
		return g.applyDeclaredSpec(sf, args, cx, pkg)
	}
	ncx := &Ctx{st: cx.st, old: cx.old, vars: map[string]Val{}, oldV: map[string]Val{}, pkg: pkg, disc: cx.disc, bound: cx.bound}
	for i, p := range sf.Params {
		ncx.vars[p.Name] = args[i]
		ncx.oldV[p.Name] = args[i]
	}
	g.specDepth++
	if g.specDepth > 40 {
		oos("spec function expansion too deep (recursive?)")
	}
	defer func() { g.specDepth-- }()
	r := g.evalSpec(sf.Body, ncx)
	rt := g.specTypeByName(sf.Ret, pkg)
	if r.T == nil && rt != nil {
		lay := g.layout(rt)
		if len(lay) == 1 {
			return Val{T: rt, C: []Term{g.unifyTo(r.C[0], lay[0].Sort)}}
		}
	}
	return r
}

// uninterpreted / recursive spec functions: declared SMT functions. They may read byte contents of slice/string
// arguments; the whole byte family version is passed as a hidden argument for each slice-typed parameter.
func (g *Gen) applyDeclaredSpec(sf *SpecFunc, args []Val, cx *Ctx, pkg *types.Package) Val {
	name := smtName("spec." + sf.Name)
	rt := g.specTypeByName(sf.Ret, pkg)
	if rt == nil {
		oos("spec function %s: unknown result type", sf.Name)
	}
	rl := g.layout(rt)
	if len(rl) != 1 {
		oos("spec function %s: non-scalar result", sf.Name)
	}
	var flat []Term
	var sorts []string
	for _, a := range args {
		if _, isArr := a.T.(specArrType); isArr {
			flat = append(flat, a.C...)
			continue
		}
		if st, ok := a.T.Underlying().(*types.Slice); ok {
			// pass the backing array and window
			lay := g.layout(st.Elem())
			if len(lay) != 1 {
				oos("spec function %s: slice of composite", sf.Name)
			}
			fam := elemFam(st.Elem())
			f := g.famTerm(cx.st, fam, arrSort(SInt, arrSort(g.intRep(), lay[0].Sort)))
			flat = append(flat, sel(f, a.C[0]), a.C[1], a.C[2])
			continue
		}
		if isString(a.T) {
			fam := elemFam(types.Typ[types.Uint8])
			f := g.famTerm(cx.st, fam, arrSort(SInt, arrSort(g.intRep(), g.byteSort())))
			flat = append(flat, sel(f, a.C[0]), a.C[1], a.C[2])
			continue
		}
		flat = append(flat, a.C...)
	}
	for _, t := range flat {
		sorts = append(sorts, t.Sort)
	}
	if !g.specDecl[sf.Name] {
		g.specDecl[sf.Name] = true
		if sf.Uninter {
			g.emit(fmt.Sprintf("(declare-fun %s (%s) %s)", name, strings.Join(sorts, " "), rl[0].Sort))
		} else {
			g.defineRecSpec(sf, name, rl[0].Sort, pkg)
		}
		g.emitAxiomsFor(sf.Name)
	}
	if hp := g.specHeap[sf.Name]; hp != nil {
		for i, t := range hp.terms {
			flat = append(flat, g.famTerm(cx.st, hp.fams[i], t.Sort))
		}
	}
	var as []string
	if sf.Rec && !sf.Uninter {
		// fuel-limited unfolding (Dafny style): two unfoldings at use sites, one less inside the definition
		if g.recSpec == sf {
			as = append(as, "|fuel!ly|")
		} else {
			as = append(as, "(fuelS (fuelS (fuelS fuelZ)))")
		}
	}
	for _, t := range flat {
		as = append(as, t.S)
	}
	if len(as) == 0 {
		return Val{T: rt, C: []Term{{name, rl[0].Sort}}}
	}
	return Val{T: rt, C: []Term{{app(name, as...), rl[0].Sort}}}
}

func (g *Gen) defineRecSpec(sf *SpecFunc, name, rsort string, pkg *types.Package) {
	// parameters: slices/strings as (array, off, len)
	var decls []string
	vars := map[string]Val{}
	for _, p := range sf.Params {
		pt := g.specTypeByName(p.Type, pkg)
		if st, ok := pt.Underlying().(*types.Slice); ok {
			lay := g.layout(st.Elem())
			an := smtName("sp." + p.Name + ".arr")
			on := smtName("sp." + p.Name + ".off")
			ln := smtName("sp." + p.Name + ".len")
			decls = append(decls, fmt.Sprintf("(%s %s) (%s %s) (%s %s)", an, arrSort(g.intRep(), lay[0].Sort), on, g.intRep(), ln, g.intRep()))
			vars[p.Name] = Val{T: specArrType{pt}, C: []Term{{an, arrSort(g.intRep(), lay[0].Sort)}, {on, g.intRep()}, {ln, g.intRep()}}}
			continue
		}
		if isString(pt) {
			an := smtName("sp." + p.Name + ".arr")
			on := smtName("sp." + p.Name + ".off")
			ln := smtName("sp." + p.Name + ".len")
			decls = append(decls, fmt.Sprintf("(%s %s) (%s %s) (%s %s)", an, arrSort(g.intRep(), g.byteSort()), on, g.intRep(), ln, g.intRep()))
			vars[p.Name] = Val{T: specArrType{pt}, C: []Term{{an, arrSort(g.intRep(), g.byteSort())}, {on, g.intRep()}, {ln, g.intRep()}}}
			continue
		}
		lay := g.layout(pt)
		v := Val{T: pt}
		for _, c := range lay {
			n := smtName("sp." + p.Name + c.Path)
			decls = append(decls, fmt.Sprintf("(%s %s)", n, c.Sort))
			v.C = append(v.C, Term{n, c.Sort})
		}
		vars[p.Name] = v
	}
	hp := &heapParams{}
	ncx := &Ctx{st: &State{heap: map[string]Term{}, cells: map[*ssa.Alloc][]Term{}, params: hp}, vars: vars, oldV: vars, pkg: pkg}
	ncx.old = ncx.st
	mark := len(g.lines)
	g.recSpec = sf
	body := g.evalSpec(sf.Body, ncx)
	g.recSpec = nil
	if len(hp.fams) > 0 {
		if sf.Rec {
			oos("recursive spec function %s reads the heap", sf.Name)
		}
		g.specHeap[sf.Name] = hp
	}
	if len(g.lines) != mark {
		// definitions emitted while evaluating the body would be out of scope; keep them (they are closed terms)
	}
	bt := body.C[0]
	if bt.Sort != rsort {
		bt = g.unifyTo(bt, rsort)
	}
	var sorts, names []string
	for _, p := range sf.Params {
		for _, t := range vars[p.Name].C {
			names = append(names, t.S)
			sorts = append(sorts, t.Sort)
		}
	}
	for _, t := range hp.terms {
		names = append(names, t.S)
		sorts = append(sorts, t.Sort)
		decls = append(decls, fmt.Sprintf("(%s %s)", t.S, t.Sort))
	}
	if sf.Rec {
		if !g.fuelDecl {
			g.fuelDecl = true
			g.emit("(declare-sort Fuel 0)")
			g.emit("(declare-fun fuelS (Fuel) Fuel)")
			g.emit("(declare-const fuelZ Fuel)")
		}
		g.emit(fmt.Sprintf("(declare-fun %s (%s) %s)", name, strings.Join(append([]string{"Fuel"}, sorts...), " "), rsort))
		hi := app(name, append([]string{"(fuelS |fuel!ly|)"}, names...)...)
		lo := app(name, append([]string{"|fuel!ly|"}, names...)...)
		qd := "(|fuel!ly| Fuel) " + strings.Join(decls, " ")
		g.emit(fmt.Sprintf("(assert (forall (%s) (! (= %s %s) :pattern (%s))))", qd, hi, bt.S, hi))
		g.emit(fmt.Sprintf("(assert (forall (%s) (! (= %s %s) :pattern (%s))))", qd, hi, lo, hi))
		return
	}
	g.emit(fmt.Sprintf("(declare-fun %s (%s) %s)", name, strings.Join(sorts, " "), rsort))
	appl := app(name, names...)
	g.emit(fmt.Sprintf("(assert (forall (%s) (! (= %s %s) :pattern (%s))))", strings.Join(decls, " "), appl, bt.S, appl))
}

// emitAxiomsFor asserts every axiom that mentions the spec function just declared (each axiom once).
func (g *Gen) emitAxiomsFor(name string) {
	for _, ax := range g.p.cs.Axioms {
		if ax.Lemma || g.axDone[ax.Name] || !strings.Contains(ax.Text, name+"(") {
			continue
		}
		// all uninterpreted functions of the axiom get declared while evaluating it
		g.axDone[ax.Name] = true
		pkg := g.p.typesPkg(ax.Pkg)
		st := &State{heap: map[string]Term{}, cells: map[*ssa.Alloc][]Term{}, alloc: tInt(0)}
		cx := &Ctx{st: st, old: st, vars: map[string]Val{}, oldV: map[string]Val{}, pkg: pkg}
		t := g.evalBool(ax.Expr, cx, &Clause{Line: "axiom " + ax.Name})
		g.assume(t)
		g.noteAssumption("axiom " + ax.Name + ": " + ax.Text)
	}
}

func elemTypeOf(t types.Type) types.Type {
	if sa, ok := t.(specArrType); ok {
		t = sa.Type
	}
	if sl, ok := t.Underlying().(*types.Slice); ok {
		return sl.Elem()
	}
	return types.Typ[types.Uint8]
}

func (g *Gen) recordDisc(cx *Ctx, x Val, iv Term) {
	if cx.disc == nil || iv.Sort != SInt {
		return
	}
	px := parseSx(iv.S)
	if px == nil {
		return
	}
	l := linOf(px)
	nb, natoms := 0, 0
	for k, c := range l.coef {
		if c.Sign() == 0 {
			continue
		}
		natoms++
		for _, bv := range cx.bound {
			if bv == k {
				nb++
			}
		}
	}
	for _, bv := range cx.bound {
		if c, ok := l.coef[bv]; ok && c.Cmp(big.NewInt(1)) == 0 {
			off := linNorm(x.C[1]).S
			if cx.disc[bv] == nil {
				cx.disc[bv] = map[string]int{}
			}
			w := 1
			switch {
			case nb == 1 && natoms == 1 && l.konst.Sign() == 0:
				w = 10000 // the variable alone: best trigger shape
			case nb == 1:
				w = 100
			}
			cx.disc[bv][off] += w
		}
	}
}

// specArrType marks a slice parameter of a recursive spec function that is represented by (array, off, len)
type specArrType struct{ types.Type }

func (g *Gen) builtinSpec(e *E, cx *Ctx) (Val, bool) {
	arg := func(i int) Val { return g.evalSpec(e.Args[i], cx) }
	switch e.Name {
	case "le64", "le32", "le16":
		// little-endian load of the first 8/4/2 bytes of a byte slice
		n := map[string]int{"le64": 8, "le32": 4, "le16": 2}[e.Name]
		b := arg(0)
		rt := map[int]types.Type{8: types.Typ[types.Uint64], 4: types.Typ[types.Uint32], 2: types.Typ[types.Uint16]}[n]
		fam := elemFam(types.Typ[types.Uint8])
		g.noteLeaf(fam, Comp{"", g.byteSort(), types.Typ[types.Uint8], "int"})
		f := g.famTerm(cx.st, fam, arrSort(SInt, arrSort(g.intRep(), g.byteSort())))
		arr := sel(f, b.C[0])
		byteAt := func(i int) Term { return sel(arr, g.addI(b.C[1], litOfSort(bigInt(int64(i)), g.intRep()))) }
		if isBV(g.byteSort()) {
			t := byteAt(n - 1).S
			for i := n - 2; i >= 0; i-- {
				t = app("concat", t, byteAt(i).S)
			}
			return Val{T: rt, C: []Term{{t, bvSort(8 * n)}}}, true
		}
		var parts []string
		for i := 0; i < n; i++ {
			parts = append(parts, app("*", byteAt(i).S, pow2(8*i).String()))
		}
		return Val{T: rt, C: []Term{{app("+", parts...), SInt}}}, true
	case "tz64", "tz32", "tz16", "tz8":
		x := arg(0)
		w := map[string]int{"tz64": 64, "tz32": 32, "tz16": 16, "tz8": 8}[e.Name]
		if !isBV(x.C[0].Sort) || bvWidth(x.C[0].Sort) != w {
			oos("%s needs a %d-bit vector argument (use arith mixed/bv)", e.Name, w)
		}
		ir := g.intRep()
		t := litOfSort(bigInt(int64(w)), ir).S
		for i := w - 1; i >= 0; i-- {
			t = app("ite", app("=", app(fmt.Sprintf("(_ extract %d %d)", i, i), x.C[0].S), "#b1"), litOfSort(bigInt(int64(i)), ir).S, t)
		}
		return Val{T: types.Typ[types.Int], C: []Term{{t, ir}}}, true
	case "lz64", "lz32", "lz8":
		x := arg(0)
		w := map[string]int{"lz64": 64, "lz32": 32, "lz8": 8}[e.Name]
		if !isBV(x.C[0].Sort) || bvWidth(x.C[0].Sort) != w {
			oos("%s needs a %d-bit vector argument", e.Name, w)
		}
		ir := g.intRep()
		t := litOfSort(bigInt(int64(w)), ir).S
		for i := 0; i < w; i++ {
			t = app("ite", app("=", app(fmt.Sprintf("(_ extract %d %d)", i, i), x.C[0].S), "#b1"), litOfSort(bigInt(int64(w-1-i)), ir).S, t)
		}
		return Val{T: types.Typ[types.Int], C: []Term{{t, ir}}}, true
	}
	return Val{}, false
}
