package main

// replayRuntime is Go source appended to every generated replay test: a tiny dynamically-typed evaluator for
// contract expressions (so that the violated clause can be evaluated as an executable predicate on the real
// data structures, including unexported fields) plus a reflective deep copy for old().
const replayRuntime = `
type gvNil struct{}

func gvI(x any) (int64, bool) {
	v := reflect.ValueOf(x)
	switch v.Kind() {
	case reflect.Int, reflect.Int8, reflect.Int16, reflect.Int32, reflect.Int64:
		return v.Int(), true
	case reflect.Uint, reflect.Uint8, reflect.Uint16, reflect.Uint32, reflect.Uint64, reflect.Uintptr:
		return int64(v.Uint()), true
	}
	return 0, false
}
func gvB(x any) bool {
	if b, ok := x.(bool); ok {
		return b
	}
	panic("gv: bool expected")
}
func gvNum(x any) int64 {
	if i, ok := gvI(x); ok {
		return i
	}
	panic(fmt.Sprintf("gv: integer expected, got %T", x))
}
func gvIsNil(x any) bool {
	if x == nil {
		return true
	}
	if _, ok := x.(gvNil); ok {
		return true
	}
	v := reflect.ValueOf(x)
	switch v.Kind() {
	case reflect.Ptr, reflect.Slice, reflect.Map, reflect.Interface, reflect.Func, reflect.Chan:
		return v.IsNil()
	}
	return false
}
func gvEq(a, b any) bool {
	if _, ok := a.(gvNil); ok {
		return gvIsNil(b)
	}
	if _, ok := b.(gvNil); ok {
		return gvIsNil(a)
	}
	if x, ok := gvI(a); ok {
		if y, ok := gvI(b); ok {
			return x == y
		}
	}
	va, vb := reflect.ValueOf(a), reflect.ValueOf(b)
	if va.Kind() == reflect.Slice && vb.Kind() == reflect.Slice {
		return va.Pointer() == vb.Pointer() && va.Len() == vb.Len() && va.Cap() == vb.Cap()
	}
	return reflect.DeepEqual(a, b)
}
func gvAccessible(v reflect.Value) reflect.Value {
	if v.CanInterface() {
		return v
	}
	if v.CanAddr() {
		return reflect.NewAt(v.Type(), unsafe.Pointer(v.UnsafeAddr())).Elem()
	}
	// copy to an addressable location
	c := reflect.New(v.Type()).Elem()
	switch v.Kind() {
	case reflect.Bool:
		c.SetBool(v.Bool())
	case reflect.Int, reflect.Int8, reflect.Int16, reflect.Int32, reflect.Int64:
		c.SetInt(v.Int())
	case reflect.Uint, reflect.Uint8, reflect.Uint16, reflect.Uint32, reflect.Uint64, reflect.Uintptr:
		c.SetUint(v.Uint())
	default:
		panic("gv: cannot access unexported non-addressable value")
	}
	return c
}
func gvFld(x any, name string) any {
	v := reflect.ValueOf(x)
	for v.Kind() == reflect.Ptr || v.Kind() == reflect.Interface {
		if v.IsNil() {
			panic("gv: nil dereference in predicate")
		}
		v = v.Elem()
	}
	if v.Kind() != reflect.Struct {
		panic("gv: field of non-struct")
	}
	if !v.CanAddr() {
		c := reflect.New(v.Type()).Elem()
		c.Set(v)
		v = c
	}
	f := v.FieldByName(name)
	if !f.IsValid() {
		panic("gv: no field " + name)
	}
	return gvAccessible(f).Interface()
}
func gvDeref(x any) any {
	v := reflect.ValueOf(x)
	if v.Kind() == reflect.Ptr {
		if v.IsNil() {
			return reflect.Zero(v.Type().Elem()).Interface()
		}
		return v.Elem().Interface()
	}
	return x
}
func gvIdx(x any, i any) any {
	v := reflect.ValueOf(x)
	if v.Kind() == reflect.Ptr {
		v = v.Elem()
	}
	n := int(gvNum(i))
	switch v.Kind() {
	case reflect.Slice:
		// specifications may look at [len, cap)
		if n >= 0 && n < v.Cap() {
			return v.Slice(0, v.Cap()).Index(n).Interface()
		}
	case reflect.Array, reflect.String:
		if n >= 0 && n < v.Len() {
			return v.Index(n).Interface()
		}
	}
	panic("gv: index out of range in predicate")
}
func gvSlice(x any, lo, hi any, hasHi bool) any {
	v := reflect.ValueOf(x)
	l := int(gvNum(lo))
	h := v.Len()
	if hasHi {
		h = int(gvNum(hi))
	}
	if v.Kind() == reflect.Slice {
		return v.Slice(0, v.Cap()).Slice(l, h).Interface()
	}
	return v.Slice(l, h).Interface()
}
func gvLen(x any) any {
	v := reflect.ValueOf(x)
	if v.Kind() == reflect.Ptr {
		v = v.Elem()
	}
	return int64(v.Len())
}
func gvCap(x any) any { return int64(reflect.ValueOf(x).Cap()) }
func gvBase(x any) any {
	v := reflect.ValueOf(x)
	if v.Cap() == 0 {
		return int64(0)
	}
	return int64(v.Pointer())
}
func gvQuo(a, b int64) int64 { return a / b }
func gvRem(a, b int64) int64 { return a % b }

// quantifier domains: a finite sample; a forall is reported false only if some sampled instance is false,
// instances whose evaluation panics (index out of range in the predicate) are skipped.
var gvDomain []int64

func gvTry(f func() bool) (r bool, ok bool) {
	defer func() {
		if e := recover(); e != nil {
			ok = false
		}
	}()
	return f(), true
}
func gvForall(n int, body func(vs []any) bool) bool {
	vs := make([]any, n)
	var rec func(k int) bool
	rec = func(k int) bool {
		if k == n {
			r, ok := gvTry(func() bool { return body(vs) })
			return !ok || r
		}
		for _, d := range gvDomain {
			vs[k] = d
			if !rec(k + 1) {
				return false
			}
		}
		return true
	}
	return rec(0)
}
func gvExists(n int, body func(vs []any) bool) bool {
	vs := make([]any, n)
	var rec func(k int) bool
	rec = func(k int) bool {
		if k == n {
			r, ok := gvTry(func() bool { return body(vs) })
			return ok && r
		}
		for _, d := range gvDomain {
			vs[k] = d
			if rec(k + 1) {
				return true
			}
		}
		return false
	}
	return rec(0)
}

func gvDeepCopy(x any) any {
	if x == nil {
		return nil
	}
	seen := map[uintptr]reflect.Value{}
	return gvCopyVal(reflect.ValueOf(x), seen).Interface()
}
func gvCopyVal(v reflect.Value, seen map[uintptr]reflect.Value) reflect.Value {
	switch v.Kind() {
	case reflect.Ptr:
		if v.IsNil() {
			return v
		}
		if c, ok := seen[v.Pointer()]; ok {
			return c
		}
		n := reflect.New(v.Type().Elem())
		seen[v.Pointer()] = n
		gvCopyInto(n.Elem(), v.Elem(), seen)
		return n
	case reflect.Slice:
		if v.IsNil() {
			return v
		}
		full := v.Slice(0, v.Cap())
		n := reflect.MakeSlice(v.Type(), v.Cap(), v.Cap())
		for i := 0; i < v.Cap(); i++ {
			gvCopyInto(n.Index(i), full.Index(i), seen)
		}
		return n.Slice(0, v.Len())
	case reflect.Struct, reflect.Array:
		n := reflect.New(v.Type()).Elem()
		gvCopyInto(n, v, seen)
		return n
	}
	return v
}
func gvCopyInto(dst, src reflect.Value, seen map[uintptr]reflect.Value) {
	switch src.Kind() {
	case reflect.Struct:
		if !src.CanAddr() {
			c := reflect.New(src.Type()).Elem()
			c.Set(src)
			src = c
		}
		for i := 0; i < src.NumField(); i++ {
			sf := gvAccessible(src.Field(i))
			df := reflect.NewAt(dst.Field(i).Type(), unsafe.Pointer(dst.Field(i).UnsafeAddr())).Elem()
			gvCopyInto(df, sf, seen)
		}
	case reflect.Array:
		for i := 0; i < src.Len(); i++ {
			gvCopyInto(dst.Index(i), src.Index(i), seen)
		}
	case reflect.Ptr, reflect.Slice:
		dst.Set(gvCopyVal(src, seen))
	default:
		dst.Set(src)
	}
}
`
