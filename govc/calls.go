package main

import (
	"go/token"
	"sort"
	"fmt"
	"go/types"
	"regexp"
	"strings"

	"golang.org/x/tools/go/ssa"
)

// ---------- effects (frames) ----------

type Effect struct {
	Leaf   Comp
	Fam    string
	Sort   string
	Target *Term // ref (H/B families) or base (E families); nil = anywhere in the family
	Whole  bool  // G family: whole value
}

type modRoot struct {
	T types.Type
	V *Val
	A *Addr // the argument is an interior address (&x.f): effects apply to the object x, path f
}

var reModTok = regexp.MustCompile(`^([A-Za-z_][A-Za-z_0-9]*)|^\.\*\*|^\.\*|^\.([A-Za-z_][A-Za-z_0-9]*)|^\[\*\]`)

// modEffects resolves a modifies path such as "s.size", "s.dense[*]", "state.*" into heap-family effects.
func (g *Gen) modEffects(path string, root func(string) (modRoot, bool), st *State) []Effect {
	rest := strings.TrimSpace(path)
	if strings.HasPrefix(rest, "family ") {
		// whole heap family by name (any object): e.g. "family H:nfa.BacktrackerState.Longest"
		fam := strings.TrimSpace(rest[7:])
		var out []Effect
		for _, df := range sortedKeys(g.declFam) {
			if famUnder(df, fam) {
				out = append(out, Effect{Fam: df, Sort: g.famSort[df]})
			}
		}
		if st != g.entry {
			// components of the family that are first touched later must not alias their entry version
			st.hv = append(st.hv, fam)
		}
		return out
	}
	m := reModTok.FindStringSubmatch(rest)
	if m == nil || m[1] == "" {
		oos("bad modifies path %q", path)
	}
	cur, ok := root(m[1])
	if !ok {
		oos("modifies: unknown root %q in %q", m[1], path)
	}
	rest = rest[len(m[0]):]
	// location of cur (if cur is the content of a location) is not tracked: only pointer/slice steps create effects
	var effs []Effect
	fieldPath := "" // accumulated by-value struct path inside the current object
	var objFam string
	var objRef *Term
	var curT types.Type = cur.T
	curV := cur.V
	inObj := false
	if cur.A != nil && cur.A.K == aHeap && len(cur.A.AIdx) == 0 {
		objFam = cur.A.Fam
		r := cur.A.Ref
		objRef = &r
		fieldPath = cur.A.Path
		curT = cur.A.T
		inObj = true
	}
	for rest != "" {
		m := reModTok.FindStringSubmatch(rest)
		if m == nil {
			oos("bad modifies path %q at %q", path, rest)
		}
		tok := m[0]
		rest = rest[len(tok):]
		last := rest == ""
		switch {
		case tok == ".*" || tok == ".**":
			var stt *types.Struct
			if !inObj {
				pt, ok := curT.Underlying().(*types.Pointer)
				if !ok {
					oos("modifies %q: .* on non-pointer", path)
				}
				objFam = heapFam(pt.Elem())
				fieldPath = ""
				if curV != nil {
					objRef = &curV.C[0]
				} else {
					objRef = nil
				}
				stt, _ = pt.Elem().Underlying().(*types.Struct)
				if stt == nil {
					oos("modifies %q: .* on non-struct", path)
				}
			} else {
				stt, _ = curT.Underlying().(*types.Struct)
			}
			for _, c := range g.layout(stt) {
				effs = append(effs, Effect{Leaf: c, Fam: objFam + fieldPath + c.Path, Sort: arrSort(SInt, c.Sort), Target: objRef})
			}
			if tok == ".**" {
				// also the elements of every slice field (one level)
				for i := 0; i < stt.NumFields(); i++ {
					if sl, ok := stt.Field(i).Type().Underlying().(*types.Slice); ok {
						var base *Term
						if objRef != nil {
							b := sel(g.famTerm(st, objFam+fieldPath+"."+stt.Field(i).Name()+"#base", arrSort(SInt, SInt)), *objRef)
							base = &b
						}
						for _, c := range g.layout(sl.Elem()) {
							effs = append(effs, Effect{Leaf: c, Fam: elemFam(sl.Elem()) + c.Path, Sort: arrSort(SInt, arrSort(g.intRep(), c.Sort)), Target: base})
						}
					}
				}
			}
			if !last {
				oos("modifies %q: nothing may follow .*", path)
			}
		case strings.HasPrefix(tok, "."):
			name := m[2]
			if !inObj {
				pt, ok := curT.Underlying().(*types.Pointer)
				if !ok {
					oos("modifies %q: field of non-pointer %s", path, curT)
				}
				objFam = heapFam(pt.Elem())
				if curV != nil {
					objRef = &curV.C[0]
				} else {
					objRef = nil
				}
				curT = pt.Elem()
				fieldPath = ""
				inObj = true
			}
			stt, ok := curT.Underlying().(*types.Struct)
			if !ok {
				oos("modifies %q: field of non-struct %s", path, curT)
			}
			found := false
			for i := 0; i < stt.NumFields(); i++ {
				if stt.Field(i).Name() == name {
					fieldPath += "." + name
					curT = stt.Field(i).Type()
					found = true
				}
			}
			if !found {
				oos("modifies %q: no field %s", path, name)
			}
			if last {
				for _, c := range g.layout(curT) {
					effs = append(effs, Effect{Leaf: c, Fam: objFam + fieldPath + c.Path, Sort: arrSort(SInt, c.Sort), Target: objRef})
				}
				break
			}
			// continue through the value stored in this field (pointer or slice) unless it is a nested struct
			if _, isStruct := curT.Underlying().(*types.Struct); isStruct {
				continue
			}
			// load the field value to follow it
			if objRef != nil {
				a := &Addr{K: aHeap, Fam: objFam, Ref: *objRef, Path: fieldPath, T: curT}
				v := g.loadAddrPure(st, a)
				curV = &v
			} else {
				curV = nil
			}
			inObj = false
		case tok == "[*]":
			sl, ok := curT.Underlying().(*types.Slice)
			if !ok || inObj {
				if at, isArr := curT.Underlying().(*types.Array); isArr && inObj {
					// array field inside the object: whole array component(s)
					for _, c := range g.layout(at) {
						effs = append(effs, Effect{Leaf: c, Fam: objFam + fieldPath + c.Path, Sort: arrSort(SInt, c.Sort), Target: objRef})
					}
					if !last {
						oos("modifies %q: nothing may follow [*] on arrays", path)
					}
					break
				}
				oos("modifies %q: [*] on non-slice %s", path, curT)
			}
			var base *Term
			if curV != nil {
				base = &curV.C[0]
			}
			if last {
				for _, c := range g.layout(sl.Elem()) {
					effs = append(effs, Effect{Leaf: c, Fam: elemFam(sl.Elem()) + c.Path, Sort: arrSort(SInt, arrSort(g.intRep(), c.Sort)), Target: base})
				}
				break
			}
			// elements followed further: a[*].f  -> element family path, a[*].p.f -> unknown targets
			curT = sl.Elem()
			if _, isStruct := curT.Underlying().(*types.Struct); isStruct {
				objFam = elemFam(sl.Elem())
				objRef = base
				fieldPath = ""
				inObj = true
				// element struct fields live in the E family: mark by special handling below
				elemMode := true
				_ = elemMode
				// consume following .field tokens
				for rest != "" {
					m2 := reModTok.FindStringSubmatch(rest)
					if m2 == nil || !strings.HasPrefix(m2[0], ".") || m2[0] == ".*" {
						break
					}
					rest = rest[len(m2[0]):]
					stt := curT.Underlying().(*types.Struct)
					ok := false
					for i := 0; i < stt.NumFields(); i++ {
						if stt.Field(i).Name() == m2[2] {
							fieldPath += "." + m2[2]
							curT = stt.Field(i).Type()
							ok = true
						}
					}
					if !ok {
						oos("modifies %q: no field %s", path, m2[2])
					}
					if _, isStruct := curT.Underlying().(*types.Struct); !isStruct {
						break
					}
				}
				if rest == "" || rest == ".*" {
					for _, c := range g.layout(curT) {
						effs = append(effs, Effect{Leaf: c, Fam: objFam + fieldPath + c.Path, Sort: arrSort(SInt, arrSort(g.intRep(), c.Sort)), Target: base})
					}
					rest = ""
					break
				}
				// deeper: unknown targets
				curV = nil
				inObj = false
				continue
			}
			curV = nil
			inObj = false
		default:
			oos("bad modifies path %q", path)
		}
	}
	return effs
}

func (g *Gen) applyEffects(st *State, effs []Effect) {
	for _, e := range effs {
		g.noteLeaf(e.Fam, e.Leaf)
		f := g.famTerm(st, e.Fam, e.Sort)
		if e.Target == nil {
			st.heap[e.Fam] = g.freshFam(e.Fam, e.Sort)
			continue
		}
		nv := g.freshPart(e.Fam, arrElem(e.Sort))
		st.heap[e.Fam] = g.define("h", sto(f, *e.Target, nv))
	}
}

// checkModifies: at return, every heap family that changed is unchanged outside the declared frame
func (g *Gen) modEffectsOfContract() []Effect {
	if g.modEffs != nil || g.con == nil {
		return g.modEffs
	}
	root := func(name string) (modRoot, bool) {
		v, ok := g.params[name]
		if !ok {
			return modRoot{}, false
		}
		return modRoot{T: v.T, V: &v}, true
	}
	effs := []Effect{}
	for _, m := range g.con.Modifies {
		if strings.HasPrefix(m, "global ") {
			continue
		}
		effs = append(effs, g.modEffects(m, root, g.entry)...)
	}
	g.modEffs = effs
	return effs
}

// frameFormula: family fam (current version `now`) differs from its entry version only at locations the
// contract's modifies clause allows or at objects allocated since entry. ok=false when nothing is to be shown.
func (g *Gen) frameFormula(fam string, now Term) (Term, bool) {
	was := g.famTerm(g.entry, fam, g.famSort[fam])
	if now.S == was.S {
		return Term{}, false
	}
	if strings.HasPrefix(fam, "G:") {
		for _, m := range g.con.Modifies {
			if strings.HasPrefix(m, "global ") && strings.HasPrefix(fam, "G:"+strings.TrimSpace(m[7:])) {
				return Term{}, false
			}
		}
		return eq(now, was), true
	}
	if !isArr(now.Sort) {
		return Term{}, false
	}
	var excl []Term
	g.n++
	r := Term{fmt.Sprintf("r!%d", g.n), SInt}
	for _, m := range g.con.Modifies {
		if strings.HasPrefix(m, "family ") && famUnder(fam, strings.TrimSpace(m[7:])) {
			return Term{}, false
		}
	}
	for _, e := range g.modEffectsOfContract() {
		if e.Fam == fam {
			if e.Target == nil {
				return Term{}, false
			}
			excl = append(excl, not(eq(r, *e.Target)))
		}
	}
	conds := append([]Term{{app("<", "0", r.S), SBool}, {app("<", r.S, g.entry.alloc.S), SBool}}, excl...)
	body := implies(and(conds...), eq(sel(now, r), sel(was, r)))
	return Term{fmt.Sprintf("(forall ((%s Int)) %s)", r.S, body.S), SBool}, true
}

func (g *Gen) checkModifies() {
	st := g.st
	for _, fam := range sortedKeys(st.heap) {
		if f, ok := g.frameFormula(fam, st.heap[fam]); ok {
			g.oblige("modifies", f, "frame: "+fam+" unchanged outside modifies clause")
		}
	}
}

// ---------- loop havoc ----------

type writeRec struct {
	store *ssa.Store
	call  *ssa.Call
}

func (g *Gen) havocLoop(li *loopInfo) {
	st := g.st
	cells := map[*ssa.Alloc]bool{}
	var recs []writeRec
	for _, b := range sortedBlocks(li.blocks) {
		for _, ins := range b.Instrs {
			switch x := ins.(type) {
			case *ssa.Store:
				if al := g.rootLocal(x.Addr); al != nil {
					cells[al] = true
				} else {
					recs = append(recs, writeRec{store: x})
				}
			case *ssa.Call:
				recs = append(recs, writeRec{call: x})
			case *ssa.Alloc:
				if !x.Heap && !g.isArrayAlloc(x) {
					cells[x] = true
				}
			case *ssa.Defer, *ssa.Go:
				oos("defer/go inside a loop")
			}
		}
	}
	// pass 1: families written (names), without targets
	written := map[string]bool{}
	for _, r := range recs {
		for _, e := range g.writeEffects(r, li, cells, nil) {
			written[e.Fam] = true
		}
	}
	// pass 2: with stable targets
	var effs []Effect
	for _, r := range recs {
		effs = append(effs, g.writeEffects(r, li, cells, written)...)
	}
	for _, al := range sortedAllocs(cells) {
		if _, ok := st.cells[al]; !ok {
			continue
		}
		lay := g.layout(g.allocType(al))
		nv := make([]Term, len(lay))
		for i, c := range lay {
			nv[i] = g.fresh("lv_"+al.Comment+c.Path, c.Sort)
			g.assumeComp(nil, nv[i], c)
		}
		st.cells[al] = nv
		g.assumeSliceWF(Val{T: g.allocType(al), C: nv})
	}
	// group effects by family: any nil target -> whole family
	byFam := map[string][]Effect{}
	for _, e := range effs {
		byFam[e.Fam] = append(byFam[e.Fam], e)
	}
	li.havocFams = nil
	for _, fam := range sortedKeys(byFam) {
		li.havocFams = append(li.havocFams, fam)
		es := byFam[fam]
		whole := false
		for _, e := range es {
			if e.Target == nil {
				whole = true
			}
		}
		g.noteLeaf(fam, es[0].Leaf)
		f := g.famTerm(st, fam, es[0].Sort)
		if whole || !isArr(es[0].Sort) || strings.HasPrefix(fam, "G:") {
			st.heap[fam] = g.freshFam(fam, es[0].Sort)
			continue
		}
		seen := map[string]bool{}
		cur := f
		for _, e := range es {
			if seen[e.Target.S] {
				continue
			}
			seen[e.Target.S] = true
			cur = sto(cur, *e.Target, g.freshPart(fam, arrElem(es[0].Sort)))
		}
		st.heap[fam] = g.define("h", cur)
	}
	na := g.fresh("alloc", SInt)
	g.assume(Term{app("<=", st.alloc.S, na.S), SBool})
	st.alloc = na
}

// rootLocal: the non-escaping, non-array local an address chain is rooted in (or nil)
func (g *Gen) rootLocal(addr ssa.Value) *ssa.Alloc {
	for {
		switch a := addr.(type) {
		case *ssa.Alloc:
			if a.Heap || g.isArrayAlloc(a) {
				return nil
			}
			return a
		case *ssa.FieldAddr:
			addr = a.X
		case *ssa.IndexAddr:
			if _, ok := a.X.Type().Underlying().(*types.Pointer); ok {
				addr = a.X
				continue
			}
			return nil
		default:
			return nil
		}
	}
}

// evalStable evaluates an SSA value at the loop head if it cannot change during the loop.
func (g *Gen) evalStable(v ssa.Value, li *loopInfo, cells map[*ssa.Alloc]bool, written map[string]bool) (val Val, ok bool) {
	defer func() {
		if r := recover(); r != nil {
			if _, isOOS := r.(OOS); isOOS {
				ok = false
				return
			}
			panic(r)
		}
	}()
	switch x := v.(type) {
	case *ssa.Const:
		return g.constVal(x), true
	case *ssa.Parameter, *ssa.FreeVar:
		return g.env[v].V, true
	}
	if ins, isIns := v.(ssa.Instruction); isIns && !li.blocks[ins.Block()] {
		if sv, ok := g.env[v]; ok && sv.A == nil {
			return sv.V, true
		}
		return Val{}, false
	}
	switch x := v.(type) {
	case *ssa.UnOp:
		if x.Op.String() != "*" {
			return Val{}, false
		}
		switch a := x.X.(type) {
		case *ssa.Alloc:
			if a.Heap || g.isArrayAlloc(a) || cells[a] {
				return Val{}, false
			}
			if cs, ok := g.st.cells[a]; ok {
				return Val{T: g.allocType(a), C: cs}, true
			}
		case *ssa.FieldAddr:
			// chain of by-value fields down to a pointer load
			path := ""
			var fa *ssa.FieldAddr = a
			for {
				stt := fa.X.Type().Underlying().(*types.Pointer).Elem()
				path = "." + stt.Underlying().(*types.Struct).Field(fa.Field).Name() + path
				if inner, ok := fa.X.(*ssa.FieldAddr); ok {
					fa = inner
					continue
				}
				break
			}
			if _, isAddr := fa.X.(*ssa.IndexAddr); isAddr {
				return Val{}, false
			}
			if al, isAl := fa.X.(*ssa.Alloc); isAl && !al.Heap {
				return Val{}, false
			}
			rv, ok := g.evalStable(fa.X, li, cells, written)
			if !ok {
				return Val{}, false
			}
			objT := fa.X.Type().Underlying().(*types.Pointer).Elem()
			ft := x.Type()
			for _, c := range g.layout(ft) {
				if written[heapFam(objT)+path+c.Path] {
					return Val{}, false
				}
			}
			ad := &Addr{K: aHeap, Fam: heapFam(objT), Ref: rv.C[0], Path: path, T: ft}
			return g.loadAddrPure(g.st, ad), true
		}
	case *ssa.Slice:
		// reslicing keeps the base
		if _, ok := x.X.Type().Underlying().(*types.Slice); ok {
			bv, ok := g.evalStable(x.X, li, cells, written)
			if ok {
				// only the base is reliable
				return Val{T: x.Type(), C: []Term{bv.C[0], bv.C[1], bv.C[2], bv.C[3]}}, true
			}
		}
	}
	return Val{}, false
}

// stableBase: the backing array of a slice value if it cannot change during the loop, even when the slice
// header itself (offset/len) is recomputed inside the loop by reslicing a stable slice.
func (g *Gen) stableBase(v ssa.Value, li *loopInfo, cells map[*ssa.Alloc]bool, written map[string]bool, depth int) (Term, bool) {
	if depth > 6 {
		return Term{}, false
	}
	if val, ok := g.evalStable(v, li, cells, written); ok && len(val.C) >= 1 {
		return val.C[0], true
	}
	switch x := v.(type) {
	case *ssa.Slice:
		if _, ok := x.X.Type().Underlying().(*types.Slice); ok {
			return g.stableBase(x.X, li, cells, written, depth+1)
		}
	case *ssa.UnOp:
		al, ok := x.X.(*ssa.Alloc)
		if !ok || al.Heap || g.isArrayAlloc(al) {
			return Term{}, false
		}
		var base *Term
		n := 0
		for _, b := range sortedBlocks(li.blocks) {
			for _, ins := range b.Instrs {
				st, ok := ins.(*ssa.Store)
				if !ok || st.Addr != ssa.Value(al) {
					continue
				}
				bt, ok := g.stableBase(st.Val, li, cells, written, depth+1)
				if !ok {
					return Term{}, false
				}
				if base != nil && base.S != bt.S {
					return Term{}, false
				}
				base = &bt
				n++
			}
		}
		if base == nil {
			return Term{}, false
		}
		// value on loop entry: either the local is declared inside the loop or it already has this base
		if !li.blocks[al.Block()] {
			cs, ok := g.st.cells[al]
			if !ok || len(cs) == 0 || cs[0].S != base.S {
				return Term{}, false
			}
		}
		return *base, true
	}
	return Term{}, false
}

// writeEffects: heap effects of one store or call inside a loop. With written==nil only family names matter.
func (g *Gen) writeEffects(r writeRec, li *loopInfo, cells map[*ssa.Alloc]bool, written map[string]bool) []Effect {
	if r.store != nil {
		return g.storeEffects(r.store.Addr, li, cells, written)
	}
	return g.callEffects(r.call, li, cells, written)
}

func (g *Gen) storeEffects(addr ssa.Value, li *loopInfo, cells map[*ssa.Alloc]bool, written map[string]bool) []Effect {
	path := ""
	levels := 0
	pointee := addr.Type().Underlying().(*types.Pointer).Elem()
	mk := func(famPrefix string, elemLevel bool, target *Term) []Effect {
		var out []Effect
		for _, c := range g.layout(pointee) {
			s := c.Sort
			for i := 0; i < levels; i++ {
				s = arrSort(g.intRep(), s)
			}
			if elemLevel {
				s = arrSort(SInt, arrSort(g.intRep(), s))
			} else if !strings.HasPrefix(famPrefix, "G:") {
				s = arrSort(SInt, s)
			}
			out = append(out, Effect{Leaf: c, Fam: famPrefix + path + c.Path, Sort: s, Target: target})
		}
		return out
	}
	stable := func(v ssa.Value) *Term {
		if written == nil {
			return nil
		}
		if val, ok := g.evalStable(v, li, cells, written); ok {
			t := val.C[0]
			return &t
		}
		return nil
	}
	for {
		switch a := addr.(type) {
		case *ssa.Alloc:
			if g.isArrayAlloc(a) {
				// base is fixed for an array alloc defined outside the loop
				var tgt *Term
				if sv, ok := g.env[a]; ok && sv.A != nil && !li.blocks[a.Block()] {
					t := sv.A.Ref
					tgt = &t
				}
				path = strings.TrimPrefix(path, "[]")
				levels--
				return mk(elemFam(g.allocType(a).Underlying().(*types.Array).Elem()), true, tgt)
			}
			// heap alloc: its ref
			var tgt *Term
			if sv, ok := g.env[a]; ok && sv.A == nil && !li.blocks[a.Block()] {
				t := sv.V.C[0]
				tgt = &t
			}
			return mk(heapFam(g.allocType(a)), false, tgt)
		case *ssa.FieldAddr:
			stt := a.X.Type().Underlying().(*types.Pointer).Elem()
			f := stt.Underlying().(*types.Struct).Field(a.Field)
			path = "." + f.Name() + path
			switch a.X.(type) {
			case *ssa.FieldAddr, *ssa.IndexAddr, *ssa.Alloc, *ssa.Global:
				addr = a.X
				continue
			}
			return mk(heapFam(stt), false, stable(a.X))
		case *ssa.IndexAddr:
			switch xt := a.X.Type().Underlying().(type) {
			case *types.Slice:
				if written != nil {
					if bt, ok := g.stableBase(a.X, li, cells, written, 0); ok {
						return mk(elemFam(xt.Elem()), true, &bt)
					}
					return mk(elemFam(xt.Elem()), true, nil)
				}
				return mk(elemFam(xt.Elem()), true, stable(a.X))
			case *types.Pointer:
				path = "[]" + path
				levels++
				switch a.X.(type) {
				case *ssa.FieldAddr, *ssa.IndexAddr, *ssa.Alloc, *ssa.Global:
					addr = a.X
					continue
				}
				return mk(heapFam(xt.Elem()), false, stable(a.X))
			}
			oos("store through unsupported IndexAddr")
		case *ssa.Global:
			return mk("G:"+typeKeyGlobal(a), false, nil)
		default:
			pt := addr.Type().Underlying().(*types.Pointer)
			return mk(heapFam(pt.Elem()), false, stable(addr))
		}
	}
}

func (g *Gen) callEffects(c *ssa.Call, li *loopInfo, cells map[*ssa.Alloc]bool, written map[string]bool) []Effect {
	con, names, args := g.calleeContract(c)
	if con == nil {
		if _, ok := c.Call.Value.(*ssa.Builtin); ok {
			return g.builtinEffects(c, li, cells, written)
		}
		if f := c.Common().StaticCallee(); f != nil && g.canInline(f) {
			return g.inlineEffects(f, li, cells, 0)
		}
		return nil // reported when the call itself is executed
	}
	root := func(name string) (modRoot, bool) {
		for i, n := range names {
			if n == name {
				mr := modRoot{T: args[i].Type()}
				if written != nil {
					if v, ok := g.evalStable(args[i], li, cells, written); ok {
						mr.V = &v
					}
				}
				return mr, true
			}
		}
		return modRoot{}, false
	}
	var effs []Effect
	for _, m := range con.Modifies {
		if strings.HasPrefix(m, "global ") {
			continue
		}
		effs = append(effs, g.modEffects(m, root, g.st)...)
	}
	return effs
}

func (g *Gen) builtinEffects(c *ssa.Call, li *loopInfo, cells map[*ssa.Alloc]bool, written map[string]bool) []Effect {
	b := c.Call.Value.(*ssa.Builtin)
	switch b.Name() {
	case "append", "copy":
		st := c.Call.Args[0].Type().Underlying().(*types.Slice)
		var out []Effect
		for _, cc := range g.layout(st.Elem()) {
			out = append(out, Effect{Leaf: cc, Fam: elemFam(st.Elem()) + cc.Path, Sort: arrSort(SInt, arrSort(g.intRep(), cc.Sort))})
		}
		return out
	case "clear":
		if st, ok := c.Call.Args[0].Type().Underlying().(*types.Slice); ok {
			var out []Effect
			for _, cc := range g.layout(st.Elem()) {
				out = append(out, Effect{Leaf: cc, Fam: elemFam(st.Elem()) + cc.Path, Sort: arrSort(SInt, arrSort(g.intRep(), cc.Sort))})
			}
			return out
		}
	}
	return nil
}

// ---------- calls ----------

var reTypeArgs = regexp.MustCompile(`\[[^\]\[]*\]`)

func normKey(k string) string {
	for strings.Contains(k, "[") {
		n := reTypeArgs.ReplaceAllString(k, "")
		if n == k {
			break
		}
		k = n
	}
	return k
}

// calleeContract returns the contract for a call together with the callee's parameter names and argument values
func (g *Gen) calleeContract(c *ssa.Call) (*Contract, []string, []ssa.Value) {
	cc := c.Common()
	if cc.IsInvoke() {
		// interface method
		recvT := cc.Value.Type()
		key := "(" + types.TypeString(recvT, nil) + ")." + cc.Method.Name()
		con := g.p.cs.Funcs[key]
		if con == nil {
			return nil, nil, nil
		}
		sig := cc.Method.Type().(*types.Signature)
		names := []string{"recv"}
		if con.Opts["recv"] != "" {
			names[0] = con.Opts["recv"]
		}
		for i := 0; i < sig.Params().Len(); i++ {
			names = append(names, sig.Params().At(i).Name())
		}
		return con, names, append([]ssa.Value{cc.Value}, cc.Args...)
	}
	f := cc.StaticCallee()
	if f == nil {
		return nil, nil, nil
	}
	key := normKey(f.String())
	con := g.p.cs.Funcs[key]
	if con == nil {
		return nil, nil, nil
	}
	var names []string
	sig := f.Signature
	if sig.Recv() != nil {
		n := sig.Recv().Name()
		if n == "" || n == "_" {
			n = "recv"
		}
		names = append(names, n)
	}
	for i := 0; i < sig.Params().Len(); i++ {
		n := sig.Params().At(i).Name()
		if n == "" || n == "_" {
			n = fmt.Sprintf("arg%d", i)
		}
		names = append(names, n)
	}
	args := cc.Args
	if len(f.FreeVars) > 0 {
		return nil, nil, nil
	}
	return con, names, args
}

func (g *Gen) call(x *ssa.Call) {
	cc := x.Common()
	if b, ok := cc.Value.(*ssa.Builtin); ok {
		g.builtin(x, b)
		return
	}
	con, names, argVals := g.calleeContract(x)
	if con == nil {
		if f := cc.StaticCallee(); f != nil && g.canInline(f) {
			g.inlineCall(x, f)
			return
		}
		// a local closure (`helper := func(..) {..}` called directly, possibly through the local that holds it and
		// is assigned exactly once): verified in place like any contract-less callee, its free variables bound to the
		// captured locals of the caller
		if mc := localClosure(cc.Value); mc != nil && !cc.IsInvoke() {
			if f, ok := mc.Fn.(*ssa.Function); ok && len(f.Blocks) > 0 && len(f.FreeVars) == len(mc.Bindings) {
				bound := true
				for i, fv := range f.FreeVars {
					sv, ok := g.env[mc.Bindings[i]]
					if !ok {
						bound = false
						break
					}
					g.env[fv] = sv
				}
				if bound {
					g.inlineCall(x, f)
					return
				}
			}
		}
		name := "?"
		if cc.IsInvoke() {
			name = "(" + cc.Value.Type().String() + ")." + cc.Method.Name()
		} else if f := cc.StaticCallee(); f != nil {
			name = f.String()
			if strings.HasPrefix(name, "ssa:") || name == "ssa:deferstack" {
				g.env[x] = &SV{V: g.zeroVal(x.Type())}
				return
			}
		} else {
			// opt callbacks=pure: a call through a function-typed PARAMETER of the function under contract (a user
			// callback) is ASSUMED to leave every location this function can see unchanged; its result is unknown
			if pr := callbackParam(cc.Value); pr != nil && g.con != nil && g.con.Opts["callbacks"] == "pure" && len(g.inlineStack) == 0 {
				g.noteAssumption("callback parameter " + pr.Name() + " of " + g.fnName() + " is assumed not to write memory visible to the function (opt callbacks=pure); its results are unconstrained")
				if tup, ok := x.Type().(*types.Tuple); ok {
					v := Val{T: tup}
					for i := 0; i < tup.Len(); i++ {
						v.C = append(v.C, g.freshVal("cb_"+pr.Name(), tup.At(i).Type(), nil).C...)
					}
					g.env[x] = &SV{V: v}
				} else {
					g.env[x] = &SV{V: g.freshVal("cb_"+pr.Name(), x.Type(), nil)}
				}
				return
			}
			name = "dynamic call through " + cc.Value.Name()
		}
		oos("call to %s which has no contract", shortKey(name))
	}
	con.Used = true
	var args []Val
	for i, a := range argVals {
		args = append(args, g.argVal(a, con, names, i))
	}
	res := g.applyContract(con, names, args, x.Type(), shortKey(con.Key))
	g.env[x] = &SV{V: res}
}

// callbackParam: v is a function-typed parameter of the enclosing function, or (un-lifted form) a load of the local
// that holds it and is never re-assigned
func callbackParam(v ssa.Value) *ssa.Parameter {
	if pr, ok := v.(*ssa.Parameter); ok {
		return pr
	}
	u, ok := v.(*ssa.UnOp)
	if !ok || u.Op != token.MUL {
		return nil
	}
	al, ok := u.X.(*ssa.Alloc)
	if !ok || al.Referrers() == nil {
		return nil
	}
	var pr *ssa.Parameter
	for _, r := range *al.Referrers() {
		switch r := r.(type) {
		case *ssa.Store:
			if r.Addr != ssa.Value(al) {
				return nil
			}
			p, ok := r.Val.(*ssa.Parameter)
			if !ok || pr != nil {
				return nil
			}
			pr = p
		case *ssa.UnOp, *ssa.DebugRef:
		default:
			return nil
		}
	}
	return pr
}

// argVal evaluates a call argument. An interior address (&x.f, &a[i]) cannot be represented as a value; it is
// passed as an opaque reference provided the callee's contract does not write through that parameter.
func (g *Gen) argVal(a ssa.Value, con *Contract, names []string, i int) Val {
	if sv, ok := g.env[a]; ok && sv.A != nil {
		ad := sv.A
		if !(ad.K == aHeap && ad.Path == "" && len(ad.AIdx) == 0) {
			name := ""
			if i < len(names) {
				name = names[i]
			}
			for _, m := range con.Modifies {
				if strings.HasPrefix(m, name+".") || strings.HasPrefix(m, name+"[") || m == name {
					if ad.K == aHeap && len(ad.AIdx) == 0 {
						if g.pendingArgAddrs == nil {
							g.pendingArgAddrs = map[string]*Addr{}
						}
						g.pendingArgAddrs[name] = ad
						continue
					}
					oos("interior address passed to %s which modifies through parameter %s", shortKey(con.Key), name)
				}
			}
			t := g.fresh("opaqueaddr", SInt)
			g.assume(Term{app("<", "0", t.S), SBool})
			return Val{T: a.Type(), C: []Term{t}}
		}
	}
	return g.val(a)
}

func (g *Gen) applyContract(con *Contract, names []string, args []Val, resT types.Type, label string) Val {
	st := g.st
	addrs := g.pendingArgAddrs
	g.pendingArgAddrs = nil
	bind := map[string]Val{}
	for i, n := range names {
		if i < len(args) {
			bind[n] = args[i]
		}
	}
	pkg := g.p.typesPkg(con.Pkg)
	pre := st.clone()
	cx := &Ctx{st: st, old: pre, vars: bind, oldV: bind, pkg: pkg}
	for _, r := range con.Requires {
		g.oblige("call["+label+"].requires", g.evalBool(r.Expr, cx, r), r.Text+"  @"+r.Line)
	}
	if con.Trusted {
		g.noteTrusted(con)
	}
	// havoc frame
	root := func(name string) (modRoot, bool) {
		v, ok := bind[name]
		if !ok {
			return modRoot{}, false
		}
		if a, ok := addrs[name]; ok {
			return modRoot{T: v.T, A: a}, true
		}
		return modRoot{T: v.T, V: &v}, true
	}
	var effs []Effect
	for _, m := range con.Modifies {
		if strings.HasPrefix(m, "global ") {
			gname := strings.TrimSpace(m[7:])
			for _, fam := range sortedKeys(g.declFam) {
				if strings.HasPrefix(fam, "G:"+gname) {
					st.heap[fam] = g.freshFam(fam, g.famSort[fam])
				}
			}
			continue
		}
		effs = append(effs, g.modEffects(m, root, st)...)
	}
	g.applyEffects(st, effs)
	na := g.fresh("alloc", SInt)
	g.assume(Term{app("<=", st.alloc.S, na.S), SBool})
	st.alloc = na
	// result
	var res Val
	post := map[string]Val{}
	for k, v := range bind {
		post[k] = v
	}
	if tup, ok := resT.(*types.Tuple); ok {
		res = Val{T: resT}
		for i := 0; i < tup.Len(); i++ {
			v := g.freshVal("ret", tup.At(i).Type(), st)
			post[fmt.Sprintf("result%d", i)] = v
			if n := tup.At(i).Name(); n != "" && n != "_" {
				if _, clash := post[n]; !clash {
					post[n] = v
				}
			}
			res.C = append(res.C, v.C...)
		}
	} else if resT != nil {
		res = g.freshVal("ret", resT, st)
		post["result"] = res
		post["result0"] = res
	}
	cx2 := &Ctx{st: st, old: pre, vars: post, oldV: bind, pkg: pkg}
	// the callee's ghost variables are existential for the caller: a clause that mentions one was proved for the
	// value the ghost had, so it holds for some value - a fresh unconstrained one here
	if len(con.Ghost) > 0 {
		cxd := &Ctx{st: pre, old: pre, vars: bind, oldV: bind, pkg: pkg}
		for _, gd := range con.Ghost {
			def := g.evalSpec(gd.Expr, cxd)
			if def.T == nil {
				def = Val{T: types.Typ[types.Int], C: []Term{g.unifyTo(def.C[0], g.intRep())}}
			}
			v := Val{T: def.T}
			for _, c := range def.C {
				v.C = append(v.C, g.fresh("cgh_"+gd.Name, c.Sort))
			}
			post[gd.Name] = v
		}
	}
	for _, e := range con.Ensures {
		g.assumeReach(g.evalBool(e.Expr, cx2, e))
	}
	return res
}

func (g *Gen) noteTrusted(con *Contract) {
	if g.trusted == nil {
		g.trusted = map[string]bool{}
	}
	g.trusted[con.Key] = true
}

func (g *Gen) runDefers() {
	ds := g.deferred
	g.deferred = nil
	for i := len(ds) - 1; i >= 0; i-- {
		d := ds[i]
		// treat as a call
		cc := d.Common()
		if _, ok := cc.Value.(*ssa.Builtin); ok {
			oos("deferred builtin")
		}
		fake := &ssa.Call{Call: *cc}
		con, names, argVals := g.calleeContract(fake)
		if con == nil {
			oos("deferred call without contract: %s", cc.Value.Name())
		}
		con.Used = true
		var args []Val
		for i, a := range argVals {
			// like a direct call: an interior address (&s.pool) may be passed to a callee that only needs the place
			args = append(args, g.argVal(a, con, names, i))
		}
		var rt types.Type
		if sig, ok := cc.Value.Type().Underlying().(*types.Signature); ok && sig.Results().Len() > 0 {
			rt = sig.Results()
			if sig.Results().Len() == 1 {
				rt = sig.Results().At(0).Type()
			}
		}
		g.applyContract(con, names, args, rt, shortKey(con.Key))
	}
	g.deferred = ds // other return paths run them again
}

// ---------- builtins ----------

func (g *Gen) builtin(x *ssa.Call, b *ssa.Builtin) {
	args := x.Call.Args
	ir := g.intRep()
	switch b.Name() {
	case "len":
		v := g.val(args[0])
		switch t := args[0].Type().Underlying().(type) {
		case *types.Slice, *types.Basic:
			g.setVal(x, Val{T: x.Type(), C: []Term{v.C[2]}})
		case *types.Array:
			g.setVal(x, Val{T: x.Type(), C: []Term{litOfSort(bigInt(t.Len()), ir)}})
		case *types.Pointer:
			g.setVal(x, Val{T: x.Type(), C: []Term{litOfSort(bigInt(t.Elem().Underlying().(*types.Array).Len()), ir)}})
		case *types.Map:
			l := g.fresh("maplen", ir)
			g.assume(g.le(g.zeroI(), l))
			g.setVal(x, Val{T: x.Type(), C: []Term{l}})
		default:
			oos("len of %s", args[0].Type())
		}
	case "cap":
		v := g.val(args[0])
		if _, ok := args[0].Type().Underlying().(*types.Slice); ok {
			g.setVal(x, Val{T: x.Type(), C: []Term{v.C[3]}})
			return
		}
		oos("cap of %s", args[0].Type())
	case "min", "max":
		a, c := g.val(args[0]), g.val(args[1])
		if len(args) != 2 {
			oos("min/max with %d args", len(args))
		}
		ii, _ := intInfo(x.Type())
		var le Term
		if a.C[0].Sort == SInt {
			le = Term{app("<=", a.C[0].S, c.C[0].S), SBool}
		} else if ii.Signed {
			le = Term{app("bvsle", a.C[0].S, c.C[0].S), SBool}
		} else {
			le = Term{app("bvule", a.C[0].S, c.C[0].S), SBool}
		}
		if b.Name() == "max" {
			le = not(le)
		}
		g.setVal(x, Val{T: x.Type(), C: []Term{ite(le, a.C[0], c.C[0])}})
	case "copy":
		g.builtinCopy(x)
	case "append":
		g.builtinAppend(x)
	case "clear":
		if _, ok := args[0].Type().Underlying().(*types.Slice); !ok {
			oos("clear builtin on a map")
		}
		g.builtinClear(x)
	case "print", "println", "delete":
	default:
		if strings.HasPrefix(b.Name(), "ssa:") {
			g.env[x] = &SV{V: g.zeroVal(x.Type())}
			return
		}
		oos("builtin %s", b.Name())
	}
}

func (g *Gen) qvar() Term {
	g.n++
	return Term{fmt.Sprintf("q!%d", g.n), g.intRep()}
}

func (g *Gen) forall(q Term, body Term) Term {
	return Term{fmt.Sprintf("(forall ((%s %s)) %s)", q.S, q.Sort, body.S), SBool}
}

// clear(s) for a slice: the elements s[0:len(s)] become zero values; everything else of the backing array
// (in particular the part between len and cap) is unchanged
func (g *Gen) builtinClear(x *ssa.Call) {
	st := g.st
	dst := g.val(x.Call.Args[0])
	et := x.Call.Args[0].Type().Underlying().(*types.Slice).Elem()
	zv := g.zeroVal(et)
	for i, c := range g.layout(et) {
		fam := elemFam(et) + c.Path
		as := arrSort(g.intRep(), c.Sort)
		f := g.famTerm(st, fam, arrSort(SInt, as))
		oldDst := sel(f, dst.C[0])
		na := g.fresh("cleararr", as)
		q := g.qvar()
		inWin := and(g.le(dst.C[1], q), g.lt(q, g.addI(dst.C[1], dst.C[2])))
		body := eq(sel(na, q), ite(inWin, zv.C[i], sel(oldDst, q)))
		g.assume(g.forall(q, body))
		st.heap[fam] = g.define("h", sto(f, dst.C[0], na))
	}
}

func (g *Gen) builtinCopy(x *ssa.Call) {
	st := g.st
	dst := g.val(x.Call.Args[0])
	src := g.val(x.Call.Args[1])
	et := x.Call.Args[0].Type().Underlying().(*types.Slice).Elem()
	srcIsString := isString(x.Call.Args[1].Type())
	n := g.define("copyn", ite(g.le(dst.C[2], src.C[2]), dst.C[2], src.C[2]))
	for _, c := range g.layout(et) {
		fam := elemFam(et) + c.Path
		as := arrSort(g.intRep(), c.Sort)
		f := g.famTerm(st, fam, arrSort(SInt, as))
		sfam := f
		_ = srcIsString
		oldDst := sel(f, dst.C[0])
		srcArr := sel(sfam, src.C[0])
		na := g.fresh("copyarr", as)
		q := g.qvar()
		inWin := and(g.le(dst.C[1], q), g.lt(q, g.addI(dst.C[1], n)))
		body := eq(sel(na, q), ite(inWin, sel(srcArr, g.addI(src.C[1], g.subI(q, dst.C[1]))), sel(oldDst, q)))
		g.assume(g.forall(q, body))
		st.heap[fam] = g.define("h", sto(f, dst.C[0], na))
	}
	g.setVal(x, Val{T: x.Type(), C: []Term{n}})
}

func (g *Gen) builtinAppend(x *ssa.Call) {
	st := g.st
	s := g.val(x.Call.Args[0])
	t := g.val(x.Call.Args[1])
	et := x.Type().Underlying().(*types.Slice).Elem()
	k := t.C[2]
	newLen := g.define("applen", g.addI(s.C[2], k))
	inPlace := g.define("inplace", g.le(newLen, s.C[3]))
	nbase := g.newRef(st)
	ncap := g.fresh("appcap", g.intRep())
	g.assume(g.le(newLen, ncap))
	if ncap.Sort == SInt {
		g.assume(Term{app("<=", ncap.S, maxLenStr), SBool})
	}
	for _, c := range g.layout(et) {
		fam := elemFam(et) + c.Path
		as := arrSort(g.intRep(), c.Sort)
		f := g.famTerm(st, fam, arrSort(SInt, as))
		oldArr := sel(f, s.C[0])
		srcArr := sel(f, t.C[0])
		// in place: window [off+len, off+len+k) receives t
		na := g.fresh("apparr", as)
		q := g.qvar()
		start := g.addI(s.C[1], s.C[2])
		inWin := and(g.le(start, q), g.lt(q, g.addI(start, k)))
		body := eq(sel(na, q), ite(inWin, sel(srcArr, g.addI(t.C[1], g.subI(q, start))), sel(oldArr, q)))
		g.assume(g.forall(q, body))
		// fresh: [0,len) old contents, [len,len+k) t
		nb := g.fresh("apparr2", as)
		q2 := g.qvar()
		body2 := and(
			implies(and(g.le(g.zeroI(), q2), g.lt(q2, s.C[2])), eq(sel(nb, q2), sel(oldArr, g.addI(s.C[1], q2)))),
			implies(and(g.le(s.C[2], q2), g.lt(q2, newLen)), eq(sel(nb, q2), sel(srcArr, g.addI(t.C[1], g.subI(q2, s.C[2]))))))
		g.assume(g.forall(q2, body2))
		st.heap[fam] = g.define("h", ite(inPlace, sto(f, s.C[0], na), sto(f, nbase, nb)))
	}
	res := Val{T: x.Type(), C: []Term{
		ite(inPlace, s.C[0], nbase),
		ite(inPlace, s.C[1], g.zeroI()),
		newLen,
		ite(inPlace, s.C[3], ncap),
	}}
	g.setVal(x, res)
}

// ---------- inlining of small contract-less callees ----------

// A callee in this module that has no contract is verified in place (its body is executed symbolically at the
// call site), so that extracting a helper neither hides a change from the check nor raises a false alarm.
// localClosure resolves a callee value to the MakeClosure it must be: the closure itself, or a load of a local that
// is stored to exactly once, with a closure.
func localClosure(v ssa.Value) *ssa.MakeClosure {
	if mc, ok := v.(*ssa.MakeClosure); ok {
		return mc
	}
	ld, ok := v.(*ssa.UnOp)
	if !ok || ld.Op != token.MUL {
		return nil
	}
	al, ok := ld.X.(*ssa.Alloc)
	if !ok || al.Referrers() == nil {
		return nil
	}
	var found *ssa.MakeClosure
	for _, r := range *al.Referrers() {
		switch u := r.(type) {
		case *ssa.Store:
			if u.Addr != al {
				return nil // the address itself is stored somewhere
			}
			mc, ok := u.Val.(*ssa.MakeClosure)
			if !ok || found != nil {
				return nil
			}
			found = mc
		case *ssa.UnOp, *ssa.DebugRef:
		default:
			return nil
		}
	}
	return found
}

func (g *Gen) canInline(f *ssa.Function) bool {
	if f == nil || len(f.Blocks) == 0 || f.Pkg == nil || !strings.HasPrefix(f.Pkg.Pkg.Path(), modPath) {
		return false
	}
	if len(f.FreeVars) > 0 {
		return false
	}
	return true
}

func (g *Gen) inlineEffects(f *ssa.Function, li *loopInfo, cells map[*ssa.Alloc]bool, depth int) []Effect {
	var out []Effect
	if depth > 4 {
		return out
	}
	for _, b := range f.Blocks {
		for _, ins := range b.Instrs {
			switch x := ins.(type) {
			case *ssa.Store:
				if g.rootLocal(x.Addr) != nil {
					continue
				}
				for _, e := range g.storeEffects(x.Addr, li, cells, nil) {
					e.Target = nil
					out = append(out, e)
				}
			case *ssa.Call:
				for _, e := range g.callEffects(x, li, cells, nil) {
					e.Target = nil
					out = append(out, e)
				}
			}
		}
	}
	return out
}

type inlineRet struct {
	cond Term
	st   *State
	vals []Val
}

func (g *Gen) inlineCall(x *ssa.Call, f *ssa.Function) {
	for _, s := range g.inlineStack {
		if s == f {
			chain := ""
			for _, s := range g.inlineStack {
				chain += shortKey(s.String()) + " > "
			}
			oos("recursive call to %s which has no contract (via: %s)", shortKey(f.String()), chain)
		}
	}
	if len(g.inlineStack) >= 4 {
		chain := ""
		for _, s := range g.inlineStack {
			chain += shortKey(s.String()) + " > "
		}
		oos("call to %s which has no contract (inlining depth exceeded: %s)", shortKey(f.String()), chain)
	}
	// bind parameters
	args := x.Call.Args
	if len(args) != len(f.Params) {
		oos("inline %s: argument count mismatch", shortKey(f.String()))
	}
	for i, p := range f.Params {
		if sv, ok := g.env[args[i]]; ok && sv.A != nil && !(sv.A.K == aHeap && sv.A.Path == "" && len(sv.A.AIdx) == 0) {
			// interior/local address passed by pointer: keep the address itself
			g.env[p] = &SV{A: sv.A}
			continue
		}
		g.env[p] = &SV{V: g.val(args[i])}
	}
	// save caller context
	savedFn, savedLoops, savedDef, savedPos, savedRets := g.fn, g.loops, g.deferred, g.curPos, g.inlineRets
	g.inlineStack = append(g.inlineStack, f)
	g.fn = f
	g.deferred = nil
	g.inlineRets = nil
	defer func() {
		g.fn, g.loops, g.deferred, g.curPos, g.inlineRets = savedFn, savedLoops, savedDef, savedPos, savedRets
		g.inlineStack = g.inlineStack[:len(g.inlineStack)-1]
	}()
	g.findLoopsNoSpec()
	if len(g.loops) > 0 {
		chain := ""
		for _, s := range g.inlineStack {
			chain += shortKey(s.String()) + " > "
		}
		oos("call to %s which has no contract and contains a loop (via: %s)", shortKey(f.String()), chain)
	}
	startReach, startSt := g.reach, g.st
	order := g.topo()
	in := map[*ssa.BasicBlock][]edge{}
	for _, b := range order {
		if b == f.Blocks[0] {
			g.st, g.reach = startSt, startReach
		} else {
			es := in[b]
			if len(es) == 0 {
				continue
			}
			g.st, g.reach = g.merge(b, es)
		}
		for _, ins := range b.Instrs {
			if p := ins.Pos(); p.IsValid() {
				g.curPos = p
			}
			g.instr(ins, b, in)
		}
	}
	rets := g.inlineRets
	if len(rets) == 0 {
		// the callee never returns (always panics): the continuation is unreachable
		g.reach = tBool(false)
		g.st = startSt
		g.env[x] = &SV{V: g.zeroValOrTuple(x.Type())}
		return
	}
	var es []edge
	for _, r := range rets {
		es = append(es, edge{cond: r.cond, st: r.st})
	}
	st, reach := g.merge(f.Blocks[0], es)
	// result values
	var res Val
	if x.Type() != nil {
		res = Val{T: x.Type()}
		n := 0
		for _, v := range rets[0].vals {
			n += len(v.C)
		}
		for i := 0; i < n; i++ {
			var ts []Term
			same := true
			for _, r := range rets {
				var flat []Term
				for _, v := range r.vals {
					flat = append(flat, v.C...)
				}
				ts = append(ts, flat[i])
				if flat[i].S != ts[0].S {
					same = false
				}
			}
			if same {
				res.C = append(res.C, ts[0])
				continue
			}
			m := g.fresh("inl", ts[0].Sort)
			for k, r := range rets {
				g.assume(implies(r.cond, eq(m, ts[k])))
			}
			res.C = append(res.C, m)
		}
	}
	g.st, g.reach = st, reach
	g.env[x] = &SV{V: res}
}

func (g *Gen) zeroValOrTuple(t types.Type) Val {
	if t == nil {
		return Val{}
	}
	if tup, ok := t.(*types.Tuple); ok && tup.Len() == 0 {
		return Val{T: t}
	}
	return g.zeroVal(t)
}

func mentionsIdent(e *E, name string) bool {
	if e == nil {
		return false
	}
	if e.Op == "id" && e.Name == name {
		return true
	}
	for _, a := range e.Args {
		if mentionsIdent(a, name) {
			return true
		}
	}
	return false
}

// sortedAllocs: deterministic order for emitting per-local terms (query text must not depend on map order:
// the solvers' behaviour does)
func sortedAllocs[V any](m map[*ssa.Alloc]V) []*ssa.Alloc {
	out := make([]*ssa.Alloc, 0, len(m))
	for al := range m {
		out = append(out, al)
	}
	sort.Slice(out, func(i, j int) bool {
		a, b := out[i], out[j]
		if a.Pos() != b.Pos() {
			// token.Pos values of different files depend on the (concurrent) parse order: compare file, then offset
			pa, pb := posKey(a), posKey(b)
			if pa != pb {
				return pa < pb
			}
		}
		if a.Comment != b.Comment {
			return a.Comment < b.Comment
		}
		if a.Parent() != b.Parent() && a.Parent() != nil && b.Parent() != nil {
			return a.Parent().String() < b.Parent().String()
		}
		if a.Block() != nil && b.Block() != nil && a.Block().Index != b.Block().Index {
			return a.Block().Index < b.Block().Index
		}
		return allocOrdinal(a) < allocOrdinal(b)
	})
	return out
}

func (g *Gen) sortedLoops() []*loopInfo {
	out := make([]*loopInfo, 0, len(g.loops))
	for _, li := range g.loops {
		out = append(out, li)
	}
	sort.Slice(out, func(i, j int) bool { return out[i].header.Index < out[j].header.Index })
	return out
}

func sortedBlocks(m map[*ssa.BasicBlock]bool) []*ssa.BasicBlock {
	out := make([]*ssa.BasicBlock, 0, len(m))
	for b := range m {
		out = append(out, b)
	}
	sort.Slice(out, func(i, j int) bool { return out[i].Index < out[j].Index })
	return out
}

// allocOrdinal: position of a local among the locals of its function (Locals order, else instruction order)
func allocOrdinal(a *ssa.Alloc) int {
	if f := a.Parent(); f != nil {
		for i, l := range f.Locals {
			if l == a {
				return i
			}
		}
		if b := a.Block(); b != nil {
			for i, ins := range b.Instrs {
				if ins == ssa.Instruction(a) {
					return 1000000 + i
				}
			}
		}
	}
	return 0
}

var posKeyFset *token.FileSet

func posKey(a *ssa.Alloc) string {
	if !a.Pos().IsValid() || posKeyFset == nil {
		return ""
	}
	p := posKeyFset.Position(a.Pos())
	return fmt.Sprintf("%s:%09d", p.Filename, p.Offset)
}
