package main

import (
	"fmt"
	"go/ast"
	"go/token"
	"go/types"
	"os"
	"path/filepath"
	"sort"
	"strings"

	"golang.org/x/tools/go/packages"
	"golang.org/x/tools/go/ssa"
	"golang.org/x/tools/go/ssa/ssautil"
)

var repoDir = "/repo"
var modPath = "github.com/coregx/coregex"
var verifDir = "/verif"

type Prog struct {
	fset  *token.FileSet
	prog  *ssa.Program
	pkgs  []*packages.Package
	spkgs []*ssa.Package
	cs    *Contracts
	funcs map[string]*ssa.Function // by String()
	tpkgs map[string]*types.Package
	infos map[*types.Package]*types.Info
}

type astLoop struct{ pos, end token.Pos }

func LoadProg() (*Prog, error) {
	if d := os.Getenv("GOVC_REPO"); d != "" {
		repoDir = d
	}
	cfg := &packages.Config{Mode: packages.LoadAllSyntax, Dir: repoDir, BuildFlags: []string{"-tags=verif"}, Tests: false}
	pkgs, err := packages.Load(cfg, "./...")
	if err != nil {
		return nil, err
	}
	nerr := 0
	for _, p := range pkgs {
		for _, e := range p.Errors {
			fmt.Fprintln(os.Stderr, "load error:", e)
			nerr++
		}
	}
	if nerr > 0 {
		return nil, fmt.Errorf("%d package load errors", nerr)
	}
	prog, spkgs := ssautil.AllPackages(pkgs, ssa.NaiveForm|ssa.GlobalDebug|ssa.InstantiateGenerics)
	prog.Build()
	p := &Prog{fset: prog.Fset, prog: prog, pkgs: pkgs, spkgs: spkgs, funcs: map[string]*ssa.Function{}, tpkgs: map[string]*types.Package{}, infos: map[*types.Package]*types.Info{}}
	posKeyFset = prog.Fset
	for fn := range ssautil.AllFunctions(prog) {
		p.funcs[fn.String()] = fn
	}
	packages.Visit(pkgs, nil, func(pk *packages.Package) {
		p.tpkgs[pk.PkgPath] = pk.Types
		p.infos[pk.Types] = pk.TypesInfo
	})
	// contract files
	var files []string
	filepath.Walk(repoDir, func(path string, info os.FileInfo, err error) error {
		if err == nil && !info.IsDir() && info.Name() == "zz_contracts_verif.go" {
			files = append(files, path)
		}
		return nil
	})
	specs, _ := filepath.Glob(filepath.Join(verifDir, "specs", "*.spec"))
	sort.Strings(files)
	sort.Strings(specs)
	cs, err := LoadContracts(append(specs, files...))
	if err != nil {
		return nil, err
	}
	p.cs = cs
	return p, nil
}

func (p *Prog) typesPkg(path string) *types.Package {
	if tp, ok := p.tpkgs[path]; ok {
		return tp
	}
	return nil
}

func (p *Prog) astLoops(fn *ssa.Function) []astLoop {
	syn := fn.Syntax()
	if syn == nil {
		return nil
	}
	var body *ast.BlockStmt
	switch n := syn.(type) {
	case *ast.FuncDecl:
		body = n.Body
	case *ast.FuncLit:
		body = n.Body
	}
	if body == nil {
		return nil
	}
	var out []astLoop
	ast.Inspect(body, func(n ast.Node) bool {
		switch x := n.(type) {
		case *ast.FuncLit:
			return false
		case *ast.ForStmt:
			out = append(out, astLoop{x.Pos(), x.End()})
		case *ast.RangeStmt:
			out = append(out, astLoop{x.Pos(), x.End()})
		}
		return true
	})
	return out
}

// scopeOf returns the scope in which the variable declared at pos lives.
func (p *Prog) scopeOf(fn *ssa.Function, pos token.Pos) *types.Scope {
	var pkg *types.Package
	for f := fn; f != nil; f = f.Parent() {
		if f.Pkg != nil {
			pkg = f.Pkg.Pkg
			break
		}
	}
	if pkg == nil {
		return nil
	}
	sc := pkg.Scope().Innermost(pos)
	for s := sc; s != nil; s = s.Parent() {
		for _, n := range s.Names() {
			if o := s.Lookup(n); o != nil && o.Pos() == pos {
				return s
			}
		}
	}
	return sc
}

func (p *Prog) findFunc(key string) *ssa.Function {
	if f, ok := p.funcs[key]; ok {
		return f
	}
	// closures: pkg.Outer$1 ; methods keyed as (*pkg.T).M
	for k, f := range p.funcs {
		if normKey(k) == key {
			return f
		}
	}
	return nil
}

func relPos(fset *token.FileSet, pos token.Pos) string {
	if !pos.IsValid() {
		return ""
	}
	ps := fset.Position(pos)
	return fmt.Sprintf("%s:%d", strings.TrimPrefix(ps.Filename, repoDir+"/"), ps.Line)
}
