package main

// Contract files: comment-only Go files (//go:build verif) in /repo/<pkg>/zz_contracts_verif.go and
// trusted specs in /verif/specs/*.spec. Every contract line starts with "//@".
//
//   //@ func memchrGeneric                      (or: func (*SparseSet).Insert, func (*Regex).AllIndex$1)
//   //@   props C18 C07
//   //@   arith int|mixed|bv
//   //@   requires <expr>
//   //@   ensures <expr>
//   //@   modifies s.size, s.dense[*]
//   //@   loop 1: invariant <expr>
//   //@   loop 1: decreases <expr>
//   //@   assume <expr>   (listed as an assumption in evidence)
//   //@ trusted func math/bits.TrailingZeros64   (contract assumed, body not verified)
//   //@ spec func name(a int, b []byte) bool = <expr>
//   //@ axiom name: <expr>
//   //@ lemma name: <expr>

import (
	"fmt"
	"math/big"
	"os"
	"path/filepath"
	"regexp"
	"strconv"
	"strings"
	"unicode"
)

type E struct {
	Op   string // "lit","id","bin","un","call","index","slice","field","forall","exists","old","result","str","ite"
	Name string // identifier, operator, field name
	Args []*E
	Val  *big.Int
	Str  string
	Vars []QVar
}

type QVar struct{ Name, Type string }

type GhostDef struct {
	Name string
	Expr *E
	Var  bool // `ghost var x = e`: mutable, loop-carried ghost state (re-assigned by `after call K: ghost x = e`)
}

func (e *E) String() string {
	switch e.Op {
	case "lit":
		return e.Val.String()
	case "str":
		return strconv.Quote(e.Str)
	case "id":
		return e.Name
	case "bin":
		return "(" + e.Args[0].String() + " " + e.Name + " " + e.Args[1].String() + ")"
	case "un":
		return e.Name + e.Args[0].String()
	case "call":
		var a []string
		for _, x := range e.Args {
			a = append(a, x.String())
		}
		return e.Name + "(" + strings.Join(a, ", ") + ")"
	case "index":
		return e.Args[0].String() + "[" + e.Args[1].String() + "]"
	case "slice":
		s := e.Args[0].String() + "["
		if e.Args[1] != nil {
			s += e.Args[1].String()
		}
		s += ":"
		if e.Args[2] != nil {
			s += e.Args[2].String()
		}
		return s + "]"
	case "field":
		return e.Args[0].String() + "." + e.Name
	case "forall", "exists":
		var v []string
		for _, q := range e.Vars {
			v = append(v, q.Name+" "+q.Type)
		}
		return "(" + e.Op + " " + strings.Join(v, ", ") + " :: " + e.Args[0].String() + ")"
	case "old":
		return "old(" + e.Args[0].String() + ")"
	}
	return "?" + e.Op
}

type Clause struct {
	Kind string // requires, ensures, invariant, decreases, assume, assert
	Expr *E
	Text string
	Loop int
	Line string // file:line
	// Assumed: `trust ensures e` in a verified contract: callers may rely on it, the body is not checked against it
	// (listed as an assumption); lets one function be verified for some clauses while others stay trusted
	Assumed bool
}

type Contract struct {
	Key      string // pkgpath.FuncName as in ssa.Function.RelString / our key
	Pkg      string // package path
	Name     string // name inside the package, e.g. "(*SparseSet).Insert"
	Trusted  bool
	Props    []string
	Arith    string
	Requires []*Clause
	Ensures  []*Clause
	Assumes  []*Clause
	Modifies []string
	HasMod   bool
	After    map[string][]*Clause // proof hints: proved then assumed right after a call: key "N" (N-th call in source order) or "Name" / "Name#k" (k-th call of a callee so named)
	// ghost variables: `ghost x = e` gives the value at entry (evaluated in the entry state); `after call N: ghost x = e`
	// re-assigns it right after the N-th call (not inside loops). Visible in ensures and in later hints.
	Ghost      []GhostDef
	AfterGhost map[string][]GhostDef
	Loops    map[int]*LoopSpec
	Pure     bool
	File     string
	Opts     map[string]string
	Used     bool
}

type LoopSpec struct {
	Exit  []*Clause  // proved on every edge leaving the loop (one obligation per exit edge), then assumed
	ExitGhost []GhostDef // `loop k: exit ghost x = e`: the function-level ghost x takes the value e on every exit edge
	Ghost []GhostDef // snapshots taken at the loop head (after havoc), visible in lemma clauses
	Lemma []*Clause // proved (then assumed) at every back edge before the invariants
	Inv  []*Clause
	Dec  []*Clause
	Mods []string
}

type SpecFunc struct {
	Name    string
	Params  []QVar
	Ret     string
	Body    *E
	Text    string
	Uninter bool
	Opaque  bool
	Rec     bool
	Pkg     string
}

type Axiom struct {
	Name string
	Expr *E
	Text string
	Pkg  string
	Lemma bool
	Props []string
}

type Contracts struct {
	ModSets map[string][]string
	Funcs  map[string]*Contract
	Specs  map[string]*SpecFunc
	Axioms []*Axiom
	Order  []string
}

// ---------- lexer ----------

type tok struct {
	k string // "id","num","str","op","eof"
	s string
}

func lex(s string) ([]tok, error) {
	var out []tok
	i := 0
	ops := []string{"<==>", "==>", "::", "&&", "||", "==", "!=", "<=", ">=", "<<", ">>", "&^", "+", "-", "*", "/", "%", "&", "|", "^", "<", ">", "!", "(", ")", "[", "]", ",", ".", ":", "?"}
	for i < len(s) {
		c := s[i]
		if c == ' ' || c == '\t' {
			i++
			continue
		}
		if unicode.IsLetter(rune(c)) || c == '_' || c == '$' {
			j := i
			for j < len(s) && (unicode.IsLetter(rune(s[j])) || unicode.IsDigit(rune(s[j])) || s[j] == '_' || s[j] == '$') {
				j++
			}
			out = append(out, tok{"id", s[i:j]})
			i = j
			continue
		}
		if c >= '0' && c <= '9' {
			j := i
			for j < len(s) && (unicode.IsDigit(rune(s[j])) || unicode.IsLetter(rune(s[j])) || s[j] == '_') {
				j++
			}
			out = append(out, tok{"num", s[i:j]})
			i = j
			continue
		}
		if c == '\'' {
			j := i + 1
			for j < len(s) && s[j] != '\'' {
				if s[j] == '\\' {
					j++
				}
				j++
			}
			if j >= len(s) {
				return nil, fmt.Errorf("unterminated char literal")
			}
			r, _, _, err := strconv.UnquoteChar(s[i+1:j], '\'')
			if err != nil {
				return nil, err
			}
			out = append(out, tok{"num", strconv.Itoa(int(r))})
			i = j + 1
			continue
		}
		if c == '"' {
			j := i + 1
			for j < len(s) && s[j] != '"' {
				if s[j] == '\\' {
					j++
				}
				j++
			}
			if j >= len(s) {
				return nil, fmt.Errorf("unterminated string")
			}
			u, err := strconv.Unquote(s[i : j+1])
			if err != nil {
				return nil, err
			}
			out = append(out, tok{"str", u})
			i = j + 1
			continue
		}
		matched := false
		for _, op := range ops {
			if strings.HasPrefix(s[i:], op) {
				out = append(out, tok{"op", op})
				i += len(op)
				matched = true
				break
			}
		}
		if !matched {
			return nil, fmt.Errorf("bad character %q in %q", c, s)
		}
	}
	out = append(out, tok{"eof", ""})
	return out, nil
}

type parser struct {
	t []tok
	p int
}

func (p *parser) peek() tok { return p.t[p.p] }
func (p *parser) next() tok { t := p.t[p.p]; p.p++; return t }
func (p *parser) isOp(s string) bool {
	return p.t[p.p].k == "op" && p.t[p.p].s == s
}
func (p *parser) expect(s string) {
	if !p.isOp(s) {
		panic(fmt.Errorf("expected %q, got %q", s, p.peek().s))
	}
	p.p++
}

func ParseExpr(s string) (e *E, err error) {
	toks, err := lex(s)
	if err != nil {
		return nil, err
	}
	p := &parser{t: toks}
	defer func() {
		if r := recover(); r != nil {
			if er, ok := r.(error); ok {
				err = fmt.Errorf("%v in %q", er, s)
				return
			}
			panic(r)
		}
	}()
	e = p.expr()
	if p.peek().k != "eof" {
		return nil, fmt.Errorf("trailing %q in %q", p.peek().s, s)
	}
	return e, nil
}

func (p *parser) expr() *E {
	if p.peek().k == "id" && (p.peek().s == "forall" || p.peek().s == "exists") {
		op := p.next().s
		var vars []QVar
		for {
			n := p.next()
			if n.k != "id" {
				panic(fmt.Errorf("quantifier variable expected"))
			}
			ty := "int"
			if !p.isOp(",") && !p.isOp("::") {
				ty = ""
				for !p.isOp(",") && !p.isOp("::") && p.peek().k != "eof" {
					ty += p.next().s
				}
			}
			vars = append(vars, QVar{n.s, ty})
			if p.isOp(",") {
				p.next()
				continue
			}
			break
		}
		p.expect("::")
		body := p.expr()
		return &E{Op: op, Vars: vars, Args: []*E{body}}
	}
	return p.iff()
}

func (p *parser) iff() *E {
	l := p.implies()
	for p.isOp("<==>") {
		p.next()
		r := p.implies()
		l = &E{Op: "bin", Name: "<==>", Args: []*E{l, r}}
	}
	return l
}

func (p *parser) implies() *E {
	l := p.or()
	if p.isOp("==>") {
		p.next()
		var r *E
		if p.peek().k == "id" && (p.peek().s == "forall" || p.peek().s == "exists") {
			r = p.expr()
		} else {
			r = p.implies()
		}
		return &E{Op: "bin", Name: "==>", Args: []*E{l, r}}
	}
	return l
}

func (p *parser) binLevel(ops []string, sub func() *E) *E {
	l := sub()
	for {
		found := false
		for _, o := range ops {
			if p.isOp(o) {
				p.next()
				var r *E
				if (o == "&&" || o == "||") && p.peek().k == "id" && (p.peek().s == "forall" || p.peek().s == "exists") {
					r = p.expr()
				} else {
					r = sub()
				}
				l = &E{Op: "bin", Name: o, Args: []*E{l, r}}
				found = true
				break
			}
		}
		if !found {
			return l
		}
	}
}

func (p *parser) or() *E  { return p.binLevel([]string{"||"}, p.and) }
func (p *parser) and() *E { return p.binLevel([]string{"&&"}, p.cmp) }
func (p *parser) cmp() *E {
	return p.binLevel([]string{"==", "!=", "<=", ">=", "<", ">"}, p.add)
}
func (p *parser) add() *E { return p.binLevel([]string{"+", "-", "|", "^"}, p.mul) }
func (p *parser) mul() *E {
	return p.binLevel([]string{"*", "/", "%", "<<", ">>", "&^", "&"}, p.unary)
}

func (p *parser) unary() *E {
	for _, o := range []string{"!", "-", "^", "*"} {
		if p.isOp(o) {
			p.next()
			x := p.unary()
			if o == "-" && x.Op == "lit" {
				return &E{Op: "lit", Val: new(big.Int).Neg(x.Val)}
			}
			return &E{Op: "un", Name: o, Args: []*E{x}}
		}
	}
	return p.postfix()
}

func (p *parser) postfix() *E {
	x := p.primary()
	for {
		switch {
		case p.isOp("."):
			p.next()
			n := p.next()
			if n.k != "id" && n.k != "num" {
				panic(fmt.Errorf("field name expected"))
			}
			x = &E{Op: "field", Name: n.s, Args: []*E{x}}
		case p.isOp("["):
			p.next()
			var lo, hi *E
			if !p.isOp(":") {
				lo = p.expr()
			}
			if p.isOp(":") {
				p.next()
				if !p.isOp("]") {
					hi = p.expr()
				}
				p.expect("]")
				x = &E{Op: "slice", Args: []*E{x, lo, hi}}
			} else {
				p.expect("]")
				x = &E{Op: "index", Args: []*E{x, lo}}
			}
		case p.isOp("("):
			// call: only on identifiers / qualified names
			name := ""
			if x.Op == "id" {
				name = x.Name
			} else if x.Op == "field" && x.Args[0].Op == "id" {
				name = x.Args[0].Name + "." + x.Name
			} else {
				panic(fmt.Errorf("call on non-identifier"))
			}
			p.next()
			var args []*E
			for !p.isOp(")") {
				args = append(args, p.expr())
				if p.isOp(",") {
					p.next()
				}
			}
			p.expect(")")
			if name == "old" {
				x = &E{Op: "old", Args: args}
			} else {
				x = &E{Op: "call", Name: name, Args: args}
			}
		default:
			return x
		}
	}
}

func (p *parser) primary() *E {
	t := p.next()
	switch t.k {
	case "num":
		s := strings.ReplaceAll(t.s, "_", "")
		v, ok := new(big.Int).SetString(s, 0)
		if !ok {
			panic(fmt.Errorf("bad number %q", t.s))
		}
		return &E{Op: "lit", Val: v}
	case "str":
		return &E{Op: "str", Str: t.s}
	case "id":
		return &E{Op: "id", Name: t.s}
	case "op":
		if t.s == "(" {
			e := p.expr()
			p.expect(")")
			return e
		}
	}
	panic(fmt.Errorf("unexpected token %q", t.s))
}

// ---------- contract files ----------

var clauseKw = map[string]bool{"trust": true, "ghost": true, "after": true, "props": true, "arith": true, "requires": true, "ensures": true, "modifies": true,
	"loop": true, "assume": true, "pure": true, "opt": true, "preserves": true}

var reFuncHdr = regexp.MustCompile(`^(trusted\s+)?func\s+(\S.*)$`)
var reSpecHdr = regexp.MustCompile(`^(uninterpreted\s+|opaque\s+)?spec\s+func\s+(\w+)\s*\(([^)]*)\)\s*(\S+)?\s*(=\s*(.*))?$`)

func LoadContracts(files []string) (*Contracts, error) {
	cs := &Contracts{Funcs: map[string]*Contract{}, Specs: map[string]*SpecFunc{}, ModSets: map[string][]string{}}
	for _, f := range files {
		if err := cs.loadFile(f); err != nil {
			return nil, err
		}
	}
	return cs, nil
}

func (cs *Contracts) loadFile(file string) error {
	data, err := os.ReadFile(file)
	if err != nil {
		return err
	}
	pkg := ""
	// package path: for repo files derive from the directory relative to /repo; for spec files names are fully qualified
	if strings.HasSuffix(file, ".go") {
		rel, _ := filepath.Rel(repoDir, filepath.Dir(file))
		if rel == "." {
			pkg = modPath
		} else {
			pkg = modPath + "/" + filepath.ToSlash(rel)
		}
	}
	type rawline struct {
		s  string
		ln int
	}
	var lines []rawline
	for i, l := range strings.Split(string(data), "\n") {
		t := strings.TrimSpace(l)
		if !strings.HasPrefix(t, "//@") {
			continue
		}
		t = strings.TrimSpace(t[3:])
		if t == "" || strings.HasPrefix(t, "#") {
			continue
		}
		lines = append(lines, rawline{t, i + 1})
	}
	// join continuation lines: a line that does not start with a keyword continues the previous one
	var joined []rawline
	for _, l := range lines {
		first := l.s
		if i := strings.IndexAny(first, " \t:"); i >= 0 {
			first = first[:i]
		}
		isHdr := first == "func" || first == "trusted" || first == "spec" || first == "uninterpreted" || first == "opaque" || first == "axiom" || first == "lemma" || first == "modset"
		if isHdr || clauseKw[first] || len(joined) == 0 {
			joined = append(joined, l)
		} else {
			joined[len(joined)-1].s += " " + l.s
		}
	}
	var cur *Contract
	for _, l := range joined {
		where := fmt.Sprintf("%s:%d", file, l.ln)
		fail := func(err error) error { return fmt.Errorf("%s: %v", where, err) }
		if m := reSpecHdr.FindStringSubmatch(l.s); m != nil {
			sf := &SpecFunc{Name: m[2], Uninter: strings.HasPrefix(m[1], "uninterpreted"), Opaque: strings.HasPrefix(m[1], "opaque"), Ret: m[4], Pkg: pkg}
			if sf.Ret == "" || sf.Ret == "=" {
				sf.Ret = "bool"
			}
			for _, ps := range strings.Split(m[3], ",") {
				ps = strings.TrimSpace(ps)
				if ps == "" {
					continue
				}
				fs := strings.Fields(ps)
				if len(fs) != 2 {
					return fail(fmt.Errorf("bad spec param %q", ps))
				}
				sf.Params = append(sf.Params, QVar{fs[0], fs[1]})
			}
			if !sf.Uninter {
				e, err := ParseExpr(m[6])
				if err != nil {
					return fail(err)
				}
				sf.Body = e
				sf.Text = m[6]
				sf.Rec = strings.Contains(m[6], sf.Name+"(")
			}
			cs.Specs[sf.Name] = sf
			cur = nil
			continue
		}
		if strings.HasPrefix(l.s, "modset ") {
			rest := strings.TrimSpace(l.s[7:])
			i := strings.Index(rest, ":")
			if i < 0 {
				return fail(fmt.Errorf("modset needs name:"))
			}
			var items []string
			for _, m := range strings.Split(rest[i+1:], ",") {
				m = strings.TrimSpace(m)
				if strings.HasPrefix(m, "@") {
					items = append(items, cs.ModSets[m[1:]]...)
				} else if m != "" {
					items = append(items, m)
				}
			}
			cs.ModSets[strings.TrimSpace(rest[:i])] = items
			cur = nil
			continue
		}
		if strings.HasPrefix(l.s, "axiom ") || strings.HasPrefix(l.s, "lemma ") {
			isLemma := strings.HasPrefix(l.s, "lemma ")
			rest := strings.TrimSpace(l.s[6:])
			i := strings.Index(rest, ":")
			if i < 0 {
				return fail(fmt.Errorf("axiom needs name:"))
			}
			name := strings.TrimSpace(rest[:i])
			var props []string
			if j := strings.Index(name, "["); j >= 0 {
				props = strings.Fields(strings.Trim(name[j:], "[]"))
				name = strings.TrimSpace(name[:j])
			}
			e, err := ParseExpr(rest[i+1:])
			if err != nil {
				return fail(err)
			}
			cs.Axioms = append(cs.Axioms, &Axiom{Name: name, Expr: e, Text: strings.TrimSpace(rest[i+1:]), Pkg: pkg, Lemma: isLemma, Props: props})
			cur = nil
			continue
		}
		if m := reFuncHdr.FindStringSubmatch(l.s); m != nil {
			name := strings.TrimSpace(m[2])
			c := &Contract{Name: name, Pkg: pkg, Trusted: m[1] != "", Loops: map[int]*LoopSpec{}, File: where, Opts: map[string]string{}}
			if pkg == "" || strings.Contains(name, "/") || isQualified(name) {
				c.Key = name
				c.Pkg = pkgOfKey(name)
			} else {
				c.Key = pkg + "." + name
				if strings.HasPrefix(name, "(") {
					// (*T).M -> (*pkg.T).M
					i := strings.Index(name, ")")
					recv := name[1:i]
					star := ""
					if strings.HasPrefix(recv, "*") {
						star = "*"
						recv = recv[1:]
					}
					c.Key = "(" + star + pkg + "." + recv + ")" + name[i+1:]
				}
			}
			if _, dup := cs.Funcs[c.Key]; dup {
				return fail(fmt.Errorf("duplicate contract for %s", c.Key))
			}
			cs.Funcs[c.Key] = c
			cs.Order = append(cs.Order, c.Key)
			cur = c
			continue
		}
		if cur == nil {
			return fail(fmt.Errorf("clause outside func: %q", l.s))
		}
		kw := l.s
		rest := ""
		if i := strings.IndexAny(l.s, " \t"); i >= 0 {
			kw, rest = l.s[:i], strings.TrimSpace(l.s[i+1:])
		}
		mk := func(kind, text string, loop int) (*Clause, error) {
			e, err := ParseExpr(text)
			if err != nil {
				return nil, fail(err)
			}
			return &Clause{Kind: kind, Expr: e, Text: text, Loop: loop, Line: where}, nil
		}
		switch kw {
		case "props":
			cur.Props = strings.Fields(rest)
		case "arith":
			cur.Arith = rest
		case "pure":
			cur.Pure = true
		case "opt":
			fs := strings.SplitN(rest, "=", 2)
			if len(fs) == 2 {
				cur.Opts[strings.TrimSpace(fs[0])] = strings.TrimSpace(fs[1])
			} else {
				cur.Opts[rest] = "1"
			}
		case "trust":
			if !strings.HasPrefix(rest, "ensures ") {
				return fail(fmt.Errorf("expected 'trust ensures <expr>'"))
			}
			c, err := mk("ensures", strings.TrimSpace(rest[8:]), 0)
			if err != nil {
				return err
			}
			c.Assumed = true
			cur.Ensures = append(cur.Ensures, c)
		case "requires", "ensures", "assume":
			c, err := mk(kw, rest, 0)
			if err != nil {
				return err
			}
			switch kw {
			case "requires":
				cur.Requires = append(cur.Requires, c)
			case "ensures":
				cur.Ensures = append(cur.Ensures, c)
			case "assume":
				cur.Assumes = append(cur.Assumes, c)
			}
		case "ghost":
			i := strings.Index(rest, "=")
			if i < 0 {
				return fail(fmt.Errorf("ghost needs name = expr"))
			}
			ge, err := ParseExpr(rest[i+1:])
			if err != nil {
				return fail(err)
			}
			gn := strings.TrimSpace(rest[:i])
			isVar := false
			if strings.HasPrefix(gn, "var ") {
				isVar = true
				gn = strings.TrimSpace(gn[4:])
			}
			cur.Ghost = append(cur.Ghost, GhostDef{Name: gn, Expr: ge, Var: isVar})
		case "preserves":
			c, err := mk("requires", rest, 0)
			if err != nil {
				return err
			}
			cur.Requires = append(cur.Requires, c)
			c2, _ := mk("ensures", rest, 0)
			cur.Ensures = append(cur.Ensures, c2)
		case "modifies":
			cur.HasMod = true
			for _, m := range strings.Split(rest, ",") {
				m = strings.TrimSpace(m)
				if strings.HasPrefix(m, "@") {
					set, ok := cs.ModSets[m[1:]]
					if !ok {
						return fail(fmt.Errorf("unknown modset %s", m))
					}
					cur.Modifies = append(cur.Modifies, set...)
					continue
				}
				if m != "" && m != "nothing" {
					cur.Modifies = append(cur.Modifies, m)
				}
			}
		case "after":
			// after call N: expr
			m := regexp.MustCompile(`^call\s+([A-Za-z0-9_#*]+)\s*:\s*(.*)$`).FindStringSubmatch(rest)
			if m == nil {
				return fail(fmt.Errorf("expected 'after call N: expr'"))
			}
			k := m[1]
			if strings.HasPrefix(m[2], "ghost ") {
				gs := strings.TrimSpace(m[2][6:])
				i := strings.Index(gs, "=")
				if i < 0 {
					return fail(fmt.Errorf("ghost needs name = expr"))
				}
				ge, err := ParseExpr(gs[i+1:])
				if err != nil {
					return fail(err)
				}
				if cur.AfterGhost == nil {
					cur.AfterGhost = map[string][]GhostDef{}
				}
				cur.AfterGhost[k] = append(cur.AfterGhost[k], GhostDef{Name: strings.TrimSpace(gs[:i]), Expr: ge})
				break
			}
			c, err := mk("after", m[2], 0)
			if err != nil {
				return err
			}
			if cur.After == nil {
				cur.After = map[string][]*Clause{}
			}
			cur.After[k] = append(cur.After[k], c)
		case "loop":
			// loop k: invariant e | decreases e | modifies ...
			i := strings.Index(rest, ":")
			if i < 0 {
				return fail(fmt.Errorf("loop clause needs 'loop k: ...'"))
			}
			k, err := strconv.Atoi(strings.TrimSpace(rest[:i]))
			if err != nil {
				return fail(err)
			}
			body := strings.TrimSpace(rest[i+1:])
			kw2, rest2 := body, ""
			if j := strings.IndexAny(body, " \t"); j >= 0 {
				kw2, rest2 = body[:j], strings.TrimSpace(body[j+1:])
			}
			ls := cur.Loops[k]
			if ls == nil {
				ls = &LoopSpec{}
				cur.Loops[k] = ls
			}
			switch kw2 {
			case "invariant":
				c, err := mk("invariant", rest2, k)
				if err != nil {
					return err
				}
				ls.Inv = append(ls.Inv, c)
			case "exit":
				if strings.HasPrefix(rest2, "ghost ") {
					gs := strings.TrimSpace(rest2[6:])
					i := strings.Index(gs, "=")
					if i < 0 {
						return fail(fmt.Errorf("ghost needs name = expr"))
					}
					ge, err := ParseExpr(gs[i+1:])
					if err != nil {
						return fail(err)
					}
					ls.ExitGhost = append(ls.ExitGhost, GhostDef{Name: strings.TrimSpace(gs[:i]), Expr: ge})
					break
				}
				c, err := mk("exit", rest2, k)
				if err != nil {
					return err
				}
				ls.Exit = append(ls.Exit, c)
			case "ghost":
				i := strings.Index(rest2, "=")
				if i < 0 {
					return fail(fmt.Errorf("ghost needs name = expr"))
				}
				ge, err := ParseExpr(rest2[i+1:])
				if err != nil {
					return fail(err)
				}
				ls.Ghost = append(ls.Ghost, GhostDef{Name: strings.TrimSpace(rest2[:i]), Expr: ge})
			case "lemma":
				c, err := mk("lemma", rest2, k)
				if err != nil {
					return err
				}
				ls.Lemma = append(ls.Lemma, c)
			case "decreases":
				c, err := mk("decreases", rest2, k)
				if err != nil {
					return err
				}
				ls.Dec = append(ls.Dec, c)
			default:
				return fail(fmt.Errorf("unknown loop clause %q", kw2))
			}
		default:
			return fail(fmt.Errorf("unknown clause %q", kw))
		}
	}
	return nil
}

func isQualified(name string) bool {
	// e.g. math/bits.TrailingZeros64 or bytes.Equal or (*sync.Pool).Get
	if strings.HasPrefix(name, "(") {
		i := strings.Index(name, ")")
		return i > 0 && strings.Contains(name[:i], ".")
	}
	i := strings.LastIndex(name, ".")
	return i > 0 && !strings.Contains(name[:i], "$")
}

func pkgOfKey(key string) string {
	k := key
	if strings.HasPrefix(k, "(") {
		k = strings.TrimPrefix(k[1:strings.Index(k, ")")], "*")
	}
	i := strings.LastIndex(k, ".")
	if i < 0 {
		return ""
	}
	// for plain functions pkg.Func ; for types pkg.Type
	return k[:i]
}
