package main

import (
	"regexp"
	"bytes"
	"context"
	"fmt"
	"os"
	"os/exec"
	"path/filepath"
	"strings"
	"sync"
	"time"
)

const prelude = `(set-option :produce-models true)
(set-logic ALL)
(define-fun go_quo ((a Int) (b Int)) Int (ite (>= a 0) (ite (> b 0) (div a b) (- (div a (- b)))) (ite (> b 0) (- (div (- a) b)) (div (- a) (- b)))))
(define-fun go_rem ((a Int) (b Int)) Int (- a (* b (go_quo a b))))
`

type solverSpec struct {
	name string
	argv func(file string, timeoutS int) []string
}

var solvers = []solverSpec{
	{"z3-new", func(f string, t int) []string { return []string{"z3-new", fmt.Sprintf("-T:%d", t), f} }},
	{"z3", func(f string, t int) []string { return []string{"z3", fmt.Sprintf("-T:%d", t), f} }},
	{"cvc5", func(f string, t int) []string {
		return []string{"cvc5", "--lang=smt2", fmt.Sprintf("--tlimit=%d", t*1000), f}
	}},
}

type solveResult struct {
	status  string // unsat, sat, unknown, timeout, error
	backend string
	time    float64
	output  string
	all     map[string]string
}

var solverSem = make(chan struct{}, 16)

func runSolver(ctx context.Context, sp solverSpec, file string, timeoutS int) (string, string, float64) {
	solverSem <- struct{}{}
	defer func() { <-solverSem }()
	if ctx.Err() != nil {
		return "cancelled", "", 0
	}
	argv := sp.argv(file, timeoutS)
	cctx, cancel := context.WithTimeout(ctx, time.Duration(timeoutS+2)*time.Second)
	defer cancel()
	cmd := exec.CommandContext(cctx, argv[0], argv[1:]...)
	var out bytes.Buffer
	cmd.Stdout = &out
	cmd.Stderr = &out
	t0 := time.Now()
	cmd.Run()
	dt := time.Since(t0).Seconds()
	s := out.String()
	first := strings.TrimSpace(strings.SplitN(s, "\n", 2)[0])
	switch first {
	case "unsat", "sat", "unknown":
		return first, s, dt
	case "timeout":
		return "timeout", s, dt
	}
	if ctx.Err() != nil {
		return "cancelled", s, dt
	}
	if cctx.Err() != nil {
		return "timeout", s, dt
	}
	return "error", s, dt
}

// solve decides one query. Stage 1 runs the preferred solver alone for a short time (most obligations are
// decided there, which keeps the CPU cost at one process per obligation); stage 2 races all solvers.
func solve(query string, dir string, name string, timeoutS int, agree bool, prefer string) solveResult {
	file := filepath.Join(dir, sanitizeFile(name)+".smt2")
	os.WriteFile(file, []byte(query), 0o644)
	// the pruned variant (see pruneQuery) joins the race of stage 2: only its `unsat` answers count
	altFile := ""
	if pq, ok := pruneQuery(query); ok {
		altFile = filepath.Join(dir, sanitizeFile(name)+"-pruned.smt2")
		os.WriteFile(altFile, []byte(pq), 0o644)
		if os.Getenv("GOVC_KEEP") == "" {
			defer os.Remove(altFile)
		}
	}
	res := solveResult{status: "unknown", all: map[string]string{}}
	finish := func() solveResult {
		if res.status == "unsat" || res.status == "sat" {
			if os.Getenv("GOVC_KEEP") == "" {
				os.Remove(file)
			}
		}
		return res
	}
	if !agree {
		for _, sp := range solvers {
			if sp.name != prefer {
				continue
			}
			st, out, t := runSolver(context.Background(), sp, file, 2)
			res.all[sp.name] = st
			if st == "unsat" || st == "sat" {
				res.status, res.backend, res.time, res.output = st, sp.name, t, out
				return finish()
			}
		}
	}
	ctx, cancel := context.WithCancel(context.Background())
	defer cancel()
	type r struct {
		st, out, be string
		t           float64
	}
	ch := make(chan r, 2*len(solvers))
	var wg sync.WaitGroup
	for _, sp := range solvers {
		wg.Add(1)
		go func(sp solverSpec) {
			defer wg.Done()
			st, out, t := runSolver(ctx, sp, file, timeoutS)
			ch <- r{st, out, sp.name, t}
		}(sp)
		if altFile != "" && sp.name != "z3" {
			wg.Add(1)
			go func(sp solverSpec) {
				defer wg.Done()
				st, out, t := runSolver(ctx, sp, altFile, timeoutS)
				if st == "unsat" {
					ch <- r{st, out, sp.name + "(pruned)", t}
				}
			}(sp)
		}
	}
	go func() { wg.Wait(); close(ch) }()
	var satRes *r
	for x := range ch {
		res.all[x.be] = x.st
		if x.st == "unsat" && res.status != "unsat" {
			res.status, res.backend, res.time, res.output = "unsat", x.be, x.t, x.out
			if !agree {
				cancel()
			}
		}
		if x.st == "sat" && satRes == nil {
			xx := x
			satRes = &xx
			if !agree {
				cancel()
			}
		}
		if x.st == "error" && res.output == "" {
			res.output = x.be + ": " + x.out
		}
		if x.st == "timeout" && res.status == "unknown" && res.backend == "" {
			res.status = "timeout"
		}
	}
	if res.status == "unsat" && satRes != nil {
		res.status = "disagree"
		res.output = "unsat by " + res.backend + " but sat by " + satRes.be
		return res
	}
	if res.status != "unsat" && satRes != nil {
		res.status, res.backend, res.time, res.output = "sat", satRes.be, satRes.t, satRes.out
	}
	return finish()
}

func solveCover(query, dir, name string) solveResult {
	file := filepath.Join(dir, sanitizeFile(name)+".smt2")
	os.WriteFile(file, []byte(query), 0o644)
	if os.Getenv("GOVC_KEEP") == "" {
		defer os.Remove(file)
	}
	res := solveResult{status: "unknown", all: map[string]string{}}
	for _, sp := range solvers {
		if sp.name != "z3-new" {
			continue
		}
		st, out, t := runSolver(context.Background(), sp, file, 2)
		res.status, res.backend, res.time, res.output = st, sp.name, t, out
	}
	return res
}

var reSpecName = regexp.MustCompile(`\|spec\.([A-Za-z0-9_]+)\|`)
var reFuelDef = regexp.MustCompile(`\(\|spec\.([A-Za-z0-9_]+)\| \(fuelS \|fuel!ly\|\)`)

// pruneQuery drops the definitional (fuel) axioms of recursive spec functions that the goal does not mention, directly
// or through the definition of one it mentions. Removing assumptions keeps every `unsat` answer valid; it only helps
// the solver when an unrelated recursive definition (e.g. the output-length function of a replace loop) floods the
// instantiation of a goal about something else (the content of a slice). Returns false when nothing would be dropped.
func pruneQuery(q string) (string, bool) {
	lines := strings.Split(q, "\n")
	goal := ""
	for i := len(lines) - 1; i >= 0; i-- {
		if strings.HasPrefix(lines[i], "(assert (not ") {
			goal = lines[i]
			break
		}
	}
	if goal == "" {
		return q, false
	}
	defs := map[string][]int{}
	for i, l := range lines {
		if strings.HasPrefix(l, "(assert (forall ((|fuel!ly| Fuel)") {
			if m := reFuelDef.FindStringSubmatch(l); m != nil {
				defs[m[1]] = append(defs[m[1]], i)
			}
		}
	}
	if len(defs) == 0 {
		return q, false
	}
	keep := map[string]bool{}
	var work []string
	for _, m := range reSpecName.FindAllStringSubmatch(goal, -1) {
		if !keep[m[1]] {
			keep[m[1]] = true
			work = append(work, m[1])
		}
	}
	for len(work) > 0 {
		n := work[len(work)-1]
		work = work[:len(work)-1]
		for _, i := range defs[n] {
			for _, m := range reSpecName.FindAllStringSubmatch(lines[i], -1) {
				if !keep[m[1]] {
					keep[m[1]] = true
					work = append(work, m[1])
				}
			}
		}
	}
	drop := map[int]bool{}
	for n, idx := range defs {
		if !keep[n] {
			for _, i := range idx {
				drop[i] = true
			}
		}
	}
	if len(drop) == 0 {
		return q, false
	}
	var sb strings.Builder
	for i, l := range lines {
		if drop[i] {
			continue
		}
		sb.WriteString(l)
		if i < len(lines)-1 {
			sb.WriteByte('\n')
		}
	}
	return sb.String(), true
}

func sanitizeFile(s string) string {
	r := strings.NewReplacer("/", "_", "(", "", ")", "", "*", "", "#", "-", "[", "_", "]", "", " ", "", ":", "_", "$", "S")
	return r.Replace(s)
}

func buildQuery(g *Gen, o *Obl) string {
	var sb strings.Builder
	sb.WriteString(prelude)
	for _, l := range g.lines[:o.Lines] {
		sb.WriteString(l)
		sb.WriteByte('\n')
	}
	if o.Expect == "sat" {
		sb.WriteString("(assert " + o.Reach.S + ")\n")
		sb.WriteString("(check-sat)\n")
	} else {
		sb.WriteString("(assert (not " + implies(o.Reach, o.Goal).S + "))\n")
		sb.WriteString("(check-sat)\n(get-model)\n")
	}
	return sb.String()
}
