package main

// A small normaliser for linear integer SMT terms. Index terms built by the program translation and by
// specifications are brought into one canonical shape so that quantifier triggers (select arr idx) match.

import (
	"math/big"
	"sort"
	"strings"
)

type sx struct {
	atom string
	kids []*sx
}

func parseSx(s string) *sx {
	p := 0
	var rec func() *sx
	skip := func() {
		for p < len(s) && (s[p] == ' ' || s[p] == '\n' || s[p] == '\t') {
			p++
		}
	}
	rec = func() *sx {
		skip()
		if p >= len(s) {
			return nil
		}
		if s[p] == '(' {
			p++
			n := &sx{}
			for {
				skip()
				if p >= len(s) {
					return nil
				}
				if s[p] == ')' {
					p++
					return n
				}
				k := rec()
				if k == nil {
					return nil
				}
				n.kids = append(n.kids, k)
			}
		}
		st := p
		if s[p] == '|' {
			p++
			for p < len(s) && s[p] != '|' {
				p++
			}
			p++
			return &sx{atom: s[st:p]}
		}
		for p < len(s) && s[p] != ' ' && s[p] != ')' && s[p] != '(' && s[p] != '\n' {
			p++
		}
		return &sx{atom: s[st:p]}
	}
	r := rec()
	skip()
	if p != len(s) {
		return nil
	}
	return r
}

func (x *sx) String() string {
	if x.kids == nil && x.atom != "" {
		return x.atom
	}
	var parts []string
	for _, k := range x.kids {
		parts = append(parts, k.String())
	}
	return "(" + strings.Join(parts, " ") + ")"
}

type linTerm struct {
	coef  map[string]*big.Int
	konst *big.Int
}

func newLin() *linTerm { return &linTerm{coef: map[string]*big.Int{}, konst: new(big.Int)} }

func (l *linTerm) addScaled(o *linTerm, f *big.Int) {
	for k, v := range o.coef {
		c, ok := l.coef[k]
		if !ok {
			c = new(big.Int)
			l.coef[k] = c
		}
		c.Add(c, new(big.Int).Mul(v, f))
	}
	l.konst.Add(l.konst, new(big.Int).Mul(o.konst, f))
}

func isNum(s string) (*big.Int, bool) {
	if s == "" || s[0] < '0' || s[0] > '9' {
		return nil, false
	}
	v, ok := new(big.Int).SetString(s, 10)
	return v, ok
}

func linOf(x *sx) *linTerm {
	l := newLin()
	one := big.NewInt(1)
	if x.kids == nil {
		if v, ok := isNum(x.atom); ok {
			l.konst.Set(v)
			return l
		}
		l.coef[x.atom] = big.NewInt(1)
		return l
	}
	if len(x.kids) >= 2 && x.kids[0].kids == nil {
		switch x.kids[0].atom {
		case "+":
			for _, k := range x.kids[1:] {
				l.addScaled(linOf(k), one)
			}
			return l
		case "-":
			if len(x.kids) == 2 {
				l.addScaled(linOf(x.kids[1]), big.NewInt(-1))
				return l
			}
			l.addScaled(linOf(x.kids[1]), one)
			for _, k := range x.kids[2:] {
				l.addScaled(linOf(k), big.NewInt(-1))
			}
			return l
		case "*":
			if len(x.kids) == 3 {
				a, b := linOf(x.kids[1]), linOf(x.kids[2])
				if len(a.coef) == 0 {
					l.addScaled(b, a.konst)
					return l
				}
				if len(b.coef) == 0 {
					l.addScaled(a, b.konst)
					return l
				}
			}
		}
	}
	l.coef[x.String()] = big.NewInt(1)
	return l
}

func (l *linTerm) String() string {
	var keys []string
	for k, v := range l.coef {
		if v.Sign() != 0 {
			keys = append(keys, k)
		}
	}
	// bound variables (k!, !q) first, then others, for stable trigger-friendly shapes
	sort.Slice(keys, func(i, j int) bool {
		bi, bj := strings.Contains(keys[i], "!q"), strings.Contains(keys[j], "!q")
		if bi != bj {
			return bi
		}
		return keys[i] < keys[j]
	})
	var pos, neg []string
	for _, k := range keys {
		c := l.coef[k]
		a := new(big.Int).Abs(c)
		t := k
		if a.Cmp(big.NewInt(1)) != 0 {
			t = "(* " + a.String() + " " + k + ")"
		}
		if c.Sign() > 0 {
			pos = append(pos, t)
		} else {
			neg = append(neg, t)
		}
	}
	if l.konst.Sign() > 0 {
		pos = append(pos, l.konst.String())
	} else if l.konst.Sign() < 0 {
		neg = append(neg, new(big.Int).Neg(l.konst).String())
	}
	var p string
	switch len(pos) {
	case 0:
		p = "0"
	case 1:
		p = pos[0]
	default:
		p = "(+ " + strings.Join(pos, " ") + ")"
	}
	if len(neg) == 0 {
		return p
	}
	if len(pos) == 0 {
		if len(neg) == 1 {
			return "(- " + neg[0] + ")"
		}
		return "(- (+ " + strings.Join(neg, " ") + "))"
	}
	return "(- " + p + " " + strings.Join(neg, " ") + ")"
}

var linCache = map[string]string{}

// linNorm normalises an Int-sorted term; on any parse trouble the input is returned unchanged.
func linNorm(t Term) Term {
	if t.Sort != SInt || len(t.S) > 4000 {
		return t
	}
	x := parseSx(t.S)
	if x == nil {
		return t
	}
	return Term{linOf(x).String(), SInt}
}
