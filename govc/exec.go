package main

import (
	"os"
	"strconv"
	"fmt"
	"go/constant"
	"go/token"
	"go/types"
	"math/big"
	"sort"
	"strings"

	"golang.org/x/tools/go/ssa"
)

func bigInt(i int64) *big.Int { return big.NewInt(i) }

type loopInfo struct {
	header  *ssa.BasicBlock
	blocks  map[*ssa.BasicBlock]bool
	ordinal int
	spec    *LoopSpec
	pos     token.Pos
	// snapshot at header (after havoc) for decreases
	decAt []Term
	havocFams []string
	ghosts map[string]Val
}

type edge struct {
	from *ssa.BasicBlock
	cond Term
	st   *State
}

// ---------- driver for one function ----------

func (g *Gen) run() {
	fn := g.fn
	if len(fn.Blocks) == 0 {
		oos("no body")
	}
	g.findLoops()
	// entry state
	st := &State{cells: map[*ssa.Alloc][]Term{}, heap: map[string]Term{}}
	st.alloc = g.fresh("alloc0", SInt)
	g.assume(Term{app("<", "0", st.alloc.S), SBool})
	g.st = st
	g.reach = tBool(true)
	g.params = map[string]Val{}
	for _, p := range fn.Params {
		v := g.freshVal("p_"+p.Name(), p.Type(), st)
		g.env[p] = &SV{V: v}
		g.params[p.Name()] = v
	}
	for _, fv := range fn.FreeVars {
		// free variables of closures are pointers to captured variables (boxes)
		v := g.freshVal("fv_"+fv.Name(), fv.Type(), st)
		g.env[fv] = &SV{V: v}
		g.params[fv.Name()] = v
	}
	g.entry = st.clone()
	// preconditions
	if g.con != nil {
		cx := g.ctxEntry()
		for _, r := range g.con.Requires {
			g.assume(g.evalBool(r.Expr, cx, r))
		}
		for _, r := range g.con.Assumes {
			g.assume(g.evalBool(r.Expr, cx, r))
			g.assumptions = append(g.assumptions, fmt.Sprintf("assume in %s: %s", g.fnName(), r.Text))
		}
		g.cover("requires.sat", "precondition is satisfiable")
	}
	// process blocks in reverse post order ignoring back edges
	order := g.topo()
	in := map[*ssa.BasicBlock][]edge{}
	for _, b := range order {
		var cur *State
		var reach Term
		if b == fn.Blocks[0] {
			cur, reach = st, tBool(true)
		} else {
			es := in[b]
			if len(es) == 0 {
				continue // unreachable
			}
			cur, reach = g.merge(b, es)
		}
		g.st, g.reach = cur, reach
		if li := g.loops[b]; li != nil {
			g.loopHead(li)
		}
		for _, ins := range b.Instrs {
			if p := ins.Pos(); p.IsValid() {
				g.curPos = p
			}
			g.instr(ins, b, in)
		}
	}
}

func (g *Gen) topo() []*ssa.BasicBlock {
	fn := g.fn
	seen := map[*ssa.BasicBlock]bool{}
	var post []*ssa.BasicBlock
	var dfs func(b *ssa.BasicBlock)
	dfs = func(b *ssa.BasicBlock) {
		seen[b] = true
		for _, s := range b.Succs {
			if g.isBackEdge(b, s) {
				continue
			}
			if !seen[s] {
				dfs(s)
			}
		}
		post = append(post, b)
	}
	dfs(fn.Blocks[0])
	for i, j := 0, len(post)-1; i < j; i, j = i+1, j-1 {
		post[i], post[j] = post[j], post[i]
	}
	return post
}

func (g *Gen) isBackEdge(from, to *ssa.BasicBlock) bool {
	return to.Dominates(from)
}

func (g *Gen) findLoopsNoSpec() {
	con := g.con
	g.con = nil
	defer func() { g.con = con }()
	g.findLoops()
}

func (g *Gen) findLoops() {
	fn := g.fn
	g.loops = map[*ssa.BasicBlock]*loopInfo{}
	// check reducibility: every retreating edge (in DFS) must be a back edge by dominance
	state := map[*ssa.BasicBlock]int{}
	var dfs func(b *ssa.BasicBlock)
	dfs = func(b *ssa.BasicBlock) {
		state[b] = 1
		for _, s := range b.Succs {
			if state[s] == 1 && !s.Dominates(b) {
				oos("irreducible control flow")
			}
			if state[s] == 0 {
				dfs(s)
			}
		}
		state[b] = 2
	}
	dfs(fn.Blocks[0])
	for _, b := range fn.Blocks {
		if state[b] == 0 {
			continue
		}
		for _, s := range b.Succs {
			if s.Dominates(b) {
				li := g.loops[s]
				if li == nil {
					li = &loopInfo{header: s, blocks: map[*ssa.BasicBlock]bool{s: true}}
					g.loops[s] = li
				}
				// natural loop: all blocks that reach b without going through s
				var stack []*ssa.BasicBlock
				if !li.blocks[b] {
					li.blocks[b] = true
					stack = append(stack, b)
				}
				for len(stack) > 0 {
					x := stack[len(stack)-1]
					stack = stack[:len(stack)-1]
					for _, p := range x.Preds {
						if !li.blocks[p] && state[p] != 0 {
							li.blocks[p] = true
							stack = append(stack, p)
						}
					}
				}
			}
		}
	}
	// ordinals: by source position of the loop statement
	var lis []*loopInfo
	for _, li := range g.sortedLoops() {
		li.pos = g.loopPos(li)
		lis = append(lis, li)
	}
	sort.Slice(lis, func(i, j int) bool {
		if lis[i].pos != lis[j].pos {
			return lis[i].pos < lis[j].pos
		}
		return len(lis[i].blocks) > len(lis[j].blocks)
	})
	// map to AST loops of the function (source order) when available
	astLoops := g.p.astLoops(fn)
	for i, li := range lis {
		li.ordinal = i + 1
		if astLoops != nil {
			// innermost AST loop containing all positioned instructions of the SSA loop
			best := -1
			for k, al := range astLoops {
				if al.pos <= li.pos && g.loopMaxPos(li) < al.end {
					if best < 0 || (astLoops[best].pos <= al.pos) {
						best = k
					}
				}
			}
			if best >= 0 {
				li.ordinal = best + 1
			}
		}
		if g.con != nil {
			li.spec = g.con.Loops[li.ordinal]
		}
	}
	// a contract that names a loop the function does not have no longer fits the code
	if g.con != nil && len(g.inlineStack) == 0 {
		have := map[int]bool{}
		for _, li := range lis {
			have[li.ordinal] = true
		}
		for k := range g.con.Loops {
			if !have[k] {
				oos("the contract has clauses for loop %d but the function has no such loop", k)
			}
		}
	}
	// detect ordinal collisions
	seen := map[int]bool{}
	for _, li := range lis {
		if seen[li.ordinal] {
			oos("two SSA loops map to source loop %d", li.ordinal)
		}
		seen[li.ordinal] = true
	}
}

func (g *Gen) loopPos(li *loopInfo) token.Pos {
	min := token.Pos(0)
	for b := range li.blocks {
		for _, ins := range b.Instrs {
			if _, ok := ins.(*ssa.Alloc); ok {
				continue
			}
			if p := ins.Pos(); p.IsValid() && (min == 0 || p < min) {
				min = p
			}
		}
	}
	return min
}
func (g *Gen) loopMaxPos(li *loopInfo) token.Pos {
	max := token.Pos(0)
	for b := range li.blocks {
		for _, ins := range b.Instrs {
			if p := ins.Pos(); p.IsValid() && p > max {
				max = p
			}
		}
	}
	return max
}

func (g *Gen) freshVal(prefix string, t types.Type, st *State) Val {
	v := Val{T: t}
	for _, c := range g.layout(t) {
		x := g.fresh(prefix+c.Path, c.Sort)
		g.assumeComp(st, x, c)
		v.C = append(v.C, x)
	}
	g.assumeSliceWF(v)
	return v
}

func (g *Gen) assumeComp(st *State, x Term, c Comp) {
	switch c.Kind {
	case "int":
		if ii, ok := intInfo(c.GT); ok {
			g.assume(rangeFact(x, ii))
		}
	case "len":
		if x.Sort == SInt {
			g.assume(Term{app("and", app("<=", "0", x.S), app("<=", x.S, maxLenStr)), SBool})
		}
	case "ref", "base":
		g.assume(Term{app("<=", "0", x.S), SBool})
		if st != nil {
			g.assumeOld(st, x)
		}
	case "bbase":
		if os.Getenv("GOVC_BBASE_SIGN") != "" {
			g.assume(Term{app("<=", "0", x.S), SBool})
		}
		if st != nil {
			g.assumeOld(st, x)
		}
	case "strbase":
		g.assume(Term{app("<=", x.S, "0"), SBool})
	}
}

// slice well-formedness: off+len <= off+cap, len<=cap
func (g *Gen) assumeSliceWF(v Val) {
	l := g.layout(v.T)
	for i, c := range l {
		if strings.HasSuffix(c.Path, "#len") && i+1 < len(l) && strings.HasSuffix(l[i+1].Path, "#cap") && v.C[i].Sort == SInt {
			g.assume(Term{app("<=", v.C[i].S, v.C[i+1].S), SBool})
			if i >= 2 && strings.HasSuffix(l[i-2].Path, "#base") {
				// a nil slice (data pointer nil) has length and capacity 0
				g.assume(Term{app("=>", app("=", v.C[i-2].S, "0"), app("=", v.C[i+1].S, "0")), SBool})
			}
		}
	}
}

// ---------- merging ----------

func (g *Gen) merge(b *ssa.BasicBlock, es []edge) (*State, Term) {
	var conds []Term
	for _, e := range es {
		conds = append(conds, e.cond)
	}
	reach := g.define(fmt.Sprintf("reach_b%d", b.Index), or(conds...))
	if len(es) == 1 {
		return es[0].st.clone(), reach
	}
	out := es[0].st.clone()
	// cells
	allCells := map[*ssa.Alloc]bool{}
	for _, e := range es {
		for al := range e.st.cells {
			allCells[al] = true
		}
	}
	for _, al := range sortedAllocs(allCells) {
		lay := g.layout(g.allocType(al))
		res := make([]Term, len(lay))
		for i, c := range lay {
			var ts []Term
			same := true
			for _, e := range es {
				var t Term
				if cs, ok := e.st.cells[al]; ok {
					t = cs[i]
				} else {
					t = zeroOfSort(c.Sort)
				}
				ts = append(ts, t)
				if t.S != ts[0].S {
					same = false
				}
			}
			if same {
				res[i] = ts[0]
				continue
			}
			m := g.fresh("m_"+al.Comment+c.Path, c.Sort)
			for k, e := range es {
				g.assume(implies(e.cond, eq(m, ts[k])))
			}
			res[i] = m
		}
		out.cells[al] = res
	}
	// mutable ghosts
	for _, name := range sortedKeys(g.gvDef) {
		def := g.gvDef[name]
		res := Val{T: def.T, C: make([]Term, len(def.C))}
		changed := false
		for i := range def.C {
			var ts []Term
			same := true
			for _, e := range es {
				t := g.gvCur(e.st, name).C[i]
				ts = append(ts, t)
				if t.S != ts[0].S {
					same = false
				}
			}
			if same {
				res.C[i] = ts[0]
				continue
			}
			changed = true
			m := g.fresh("m_gv_"+name, def.C[i].Sort)
			for k, e := range es {
				g.assume(implies(e.cond, eq(m, ts[k])))
			}
			res.C[i] = m
		}
		if changed || len(es[0].st.gv) > 0 {
			if out.gv == nil {
				out.gv = map[string]Val{}
			}
			out.gv[name] = res
		}
	}
	// heap
	fams := map[string]bool{}
	for _, e := range es[1:] {
		for _, pf := range e.st.hv {
			dup := false
			for _, x := range out.hv {
				dup = dup || x == pf
			}
			if !dup {
				out.hv = append(out.hv, pf)
			}
		}
	}
	for _, e := range es {
		for f := range e.st.heap {
			fams[f] = true
		}
	}
	for _, f := range sortedKeys(fams) {
		var ts []Term
		same := true
		for _, e := range es {
			t := g.famTerm(e.st, f, g.famSort[f])
			ts = append(ts, t)
			if t.S != ts[0].S {
				same = false
			}
		}
		if same {
			out.heap[f] = ts[0]
			continue
		}
		m := g.fresh("mh", ts[0].Sort)
		for k, e := range es {
			g.assume(implies(e.cond, eq(m, ts[k])))
		}
		out.heap[f] = m
	}
	// alloc counter
	same := true
	for _, e := range es {
		if e.st.alloc.S != es[0].st.alloc.S {
			same = false
		}
	}
	if !same {
		m := g.fresh("alloc", SInt)
		for _, e := range es {
			g.assume(implies(e.cond, eq(m, e.st.alloc)))
		}
		out.alloc = m
	}
	return out, reach
}

// ---------- loops ----------

func (g *Gen) loopHead(li *loopInfo) {
	spec := li.spec
	if spec == nil {
		spec = &LoopSpec{}
	}
	// 1. invariants hold on entry
	g.curLoop = li
	defer func() { g.curLoop = nil }()
	g.curPos = li.pos
	cx := g.ctxHere()
	for _, inv := range spec.Inv {
		g.obligeClause(fmt.Sprintf("inv[%d].entry", li.ordinal), g.evalBool(inv.Expr, cx, inv), inv)
	}
	// 2. havoc everything the loop may modify; the function's frame is an implicit loop invariant:
	//    it is checked here for the pre-loop state, assumed for the havoced state and re-checked at back edges
	pre := g.st.clone()
	g.havocLoop(li)
	// mutable ghosts re-assigned inside the loop become unknown at its head (the invariants say what is kept)
	if g.con != nil && len(g.gvDef) > 0 {
		for _, b := range sortedBlocks(li.blocks) {
			for _, ins := range b.Instrs {
				c, ok := ins.(*ssa.Call)
				if !ok {
					continue
				}
				for _, k := range g.callKeys(c) {
					for _, gd := range g.con.AfterGhost[k] {
						if def, ok := g.gvDef[gd.Name]; ok {
							nv := Val{T: def.T}
							for _, t := range def.C {
								nv.C = append(nv.C, g.fresh("lgv_"+gd.Name, t.Sort))
							}
							if g.st.gv == nil {
								g.st.gv = map[string]Val{}
							}
							g.st.gv[gd.Name] = nv
						}
					}
				}
			}
		}
	}
	if g.con != nil {
		for _, fam := range li.havocFams {
			if t, ok := pre.heap[fam]; ok {
				if f, ok := g.frameFormula(fam, t); ok {
					g.oblige(fmt.Sprintf("frame[%d].entry", li.ordinal), f, "frame of "+fam+" holds on loop entry")
				}
			}
		}
		for _, fam := range li.havocFams {
			if f, ok := g.frameFormula(fam, g.st.heap[fam]); ok {
				g.assumeReach(f)
			}
		}
	}
	// 3. assume invariants
	cx = g.ctxHere()
	for _, inv := range spec.Inv {
		g.assumeReach(g.evalBool(inv.Expr, cx, inv))
	}
	li.ghosts = map[string]Val{}
	for _, gd := range spec.Ghost {
		li.ghosts[gd.Name] = g.evalSpec(gd.Expr, cx)
	}
	li.decAt = nil
	for _, d := range spec.Dec {
		v := g.evalSpec(d.Expr, cx)
		li.decAt = append(li.decAt, g.define("dec", g.toSpecInt(v)))
	}
	g.cover(fmt.Sprintf("cover.loop[%d]", li.ordinal), "loop head reachable")
}

func (g *Gen) obligeClause(kind string, goal Term, c *Clause) {
	g.oblige(kind, goal, c.Text+"  @"+c.Line)
}

func (g *Gen) backEdge(li *loopInfo, cond Term) {
	spec := li.spec
	if spec == nil {
		spec = &LoopSpec{}
	}
	saved := g.reach
	savedPos := g.curPos
	g.curPos = li.pos
	g.curLoop = li
	defer func() { g.curPos = savedPos; g.curLoop = nil }()
	g.reach = g.define("backedge", cond)
	// vacuity guard: some back edge of every loop must be reachable (a contradiction that only arises inside the
	// loop body - e.g. from a callee's assumed contract - would otherwise prove every preservation obligation)
	g.cover(fmt.Sprintf("cover.back[%d]", li.ordinal), "back edge reachable")
	if g.con != nil {
		for _, fam := range li.havocFams {
			if t, ok := g.st.heap[fam]; ok {
				if f, ok := g.frameFormula(fam, t); ok {
					g.oblige(fmt.Sprintf("frame[%d].preserve", li.ordinal), f, "frame of "+fam+" preserved by the loop body")
				}
			}
		}
	}
	cx := g.ctxHere()
	for k, v := range li.ghosts {
		cx.vars[k] = v
	}
	for _, lm := range spec.Lemma {
		g.obligeClause(fmt.Sprintf("lemma[%d]", li.ordinal), g.evalBool(lm.Expr, cx, lm), lm)
	}
	for _, inv := range spec.Inv {
		g.obligeClause(fmt.Sprintf("inv[%d].preserve", li.ordinal), g.evalBool(inv.Expr, cx, inv), inv)
	}
	for i, d := range spec.Dec {
		v := g.toSpecInt(g.evalSpec(d.Expr, cx))
		old := li.decAt[i]
		var goal Term
		if old.Sort == SInt {
			goal = Term{app("and", app("<=", "0", old.S), app("<", v.S, old.S)), SBool}
		} else {
			goal = Term{app("bvult", v.S, old.S), SBool}
		}
		g.obligeClause(fmt.Sprintf("decreases[%d]", li.ordinal), goal, d)
	}
	g.reach = saved
}

func typeKeyGlobal(gl *ssa.Global) string {
	return strings.TrimPrefix(gl.Pkg.Pkg.Path(), modPath+"/") + "." + gl.Name()
}

// arrayEscapesAsPointer: a heap-allocated array whose address is used as a *[N]T value (returned, stored, passed)
// and never sliced is modelled like any other pointee (family H:[N]T keyed by the reference), which is the
// model used for *[N]T values that arrive from the heap or as parameters.
func (g *Gen) arrayEscapesAsPointer(a *ssa.Alloc) bool {
	if !a.Heap || a.Referrers() == nil {
		return false
	}
	value, sliced := false, false
	for _, r := range *a.Referrers() {
		switch r := r.(type) {
		case *ssa.IndexAddr:
		case *ssa.Slice:
			sliced = true
		case *ssa.DebugRef:
		case *ssa.Store:
			if r.Val == ssa.Value(a) {
				value = true
			}
		default:
			value = true
		}
	}
	if value && sliced {
		oos("array %s is both sliced and used as a pointer value", a.Comment)
	}
	return value
}

func (g *Gen) isArrayAlloc(a *ssa.Alloc) bool {
	_, ok := g.allocType(a).Underlying().(*types.Array)
	return ok && !g.arrayEscapesAsPointer(a)
}

func (g *Gen) allocFam(a *ssa.Alloc) string {
	t := g.allocType(a)
	if at, ok := t.Underlying().(*types.Array); ok {
		return elemFam(at.Elem())
	}
	return heapFam(t)
}

// ---------- instructions ----------

// valOpt is val for values that may be outside the modelled subset: nil instead of an out-of-subset report
func (g *Gen) valOpt(v ssa.Value) (r *Val) {
	defer func() {
		if recover() != nil {
			r = nil
		}
	}()
	x := g.val(v)
	return &x
}

func (g *Gen) val(v ssa.Value) Val {
	switch c := v.(type) {
	case *ssa.Const:
		return g.constVal(c)
	case *ssa.Global:
		oos("global address used as value: %s", c.Name())
	case *ssa.Function:
		return Val{T: c.Type(), C: []Term{tInt(int64(g.funcID(c)))}}
	case *ssa.Builtin:
		oos("builtin as value")
	}
	sv, ok := g.env[v]
	if !ok {
		oos("value %s (%T) used before definition", v.Name(), v)
	}
	if sv.A != nil {
		// address used as a plain value
		a := sv.A
		if a.K == aHeap && a.Path == "" && len(a.AIdx) == 0 {
			return Val{T: v.Type(), C: []Term{a.Ref}}
		}
		oos("interior/local address %s escapes as a value (%s)", v.Name(), v.Type())
	}
	return sv.V
}

func (g *Gen) funcID(f *ssa.Function) int {
	k := "func:" + f.String()
	id, ok := g.typeTag[k]
	if !ok {
		id = len(g.typeTag) + 1
		g.typeTag[k] = id
	}
	return id
}

func (g *Gen) constVal(c *ssa.Const) Val {
	t := c.Type()
	if c.Value == nil {
		return g.zeroVal(t)
	}
	switch u := t.Underlying().(type) {
	case *types.Basic:
		switch {
		case u.Info()&types.IsBoolean != 0:
			return Val{T: t, C: []Term{tBool(constant.BoolVal(c.Value))}}
		case u.Info()&types.IsInteger != 0:
			ii, _ := intInfo(t)
			bi, ok := constant.Val(constant.ToInt(c.Value)).(*big.Int)
			if !ok {
				i64, _ := constant.Int64Val(constant.ToInt(c.Value))
				bi = big.NewInt(i64)
			}
			return Val{T: t, C: []Term{litOfSort(bi, g.mode.intSort(ii))}}
		case u.Info()&types.IsString != 0:
			return g.stringConst(constant.StringVal(c.Value), t)
		case u.Info()&types.IsFloat != 0:
			return Val{T: t, C: []Term{g.fresh("float", SInt)}}
		}
	}
	oos("unsupported constant %s", c)
	return Val{}
}

func (g *Gen) stringConst(s string, t types.Type) Val {
	if v, ok := g.strConsts[s]; ok {
		return Val{T: t, C: v.C}
	}
	id := len(g.strConsts) + 1
	base := tInt(int64(-id))
	ir := g.intRep()
	v := Val{T: t, C: []Term{base, litOfSort(bigZero, ir), litOfSort(bigInt(int64(len(s))), ir)}}
	g.strConsts[s] = v
	// contents: the initial version of the byte family holds the literal (string bases are never written)
	c := Comp{"", g.mode.intSort(IntInfo{8, false}), types.Typ[types.Uint8], "int"}
	a := &Addr{K: aElem, Fam: elemFam(types.Typ[types.Uint8]), Ref: base, Idx: litOfSort(bigZero, ir), T: types.Typ[types.Uint8]}
	f := g.famTerm(&State{heap: map[string]Term{}}, a.Fam, g.famSortFor(a, c))
	if len(s) <= 64 {
		for i := 0; i < len(s); i++ {
			g.assume(eq(sel(sel(f, base), litOfSort(bigInt(int64(i)), ir)), litOfSort(bigInt(int64(s[i])), c.Sort)))
		}
	}
	g.strBases = append(g.strBases, base)
	return v
}

func (g *Gen) setVal(v ssa.Value, x Val) {
	// name components to keep terms small
	for i := range x.C {
		x.C[i] = g.define(v.Name(), x.C[i])
	}
	g.env[v] = &SV{V: x}
}

func (g *Gen) addrOf(v ssa.Value) *Addr {
	switch x := v.(type) {
	case *ssa.Global:
		return &Addr{K: aGlobal, Fam: "G:" + typeKeyGlobal(x), T: x.Type().Underlying().(*types.Pointer).Elem()}
	}
	sv, ok := g.env[v]
	if !ok {
		oos("address %s used before definition", v.Name())
	}
	if sv.A != nil {
		return sv.A
	}
	// plain pointer value
	pt, ok := v.Type().Underlying().(*types.Pointer)
	if !ok {
		oos("not a pointer: %s", v.Type())
	}
	ref := sv.V.C[0]
	g.oblige("nil", Term{app("not", app("=", ref.S, "0")), SBool}, "nil dereference of "+v.Name())
	return g.refAddr(ref, pt.Elem())
}

func (g *Gen) instr(ins ssa.Instruction, b *ssa.BasicBlock, in map[*ssa.BasicBlock][]edge) {
	st := g.st
	switch x := ins.(type) {
	case *ssa.DebugRef:
	case *ssa.Alloc:
		t := g.allocType(x)
		if at, ok := t.Underlying().(*types.Array); ok && !g.arrayEscapesAsPointer(x) {
			// arrays live in the element family under a fresh base so that they can be sliced
			base := g.newRef(st)
			z := g.zeroVal(at.Elem())
			for i, c := range g.layout(at.Elem()) {
				fam := elemFam(at.Elem()) + c.Path
				f := g.famTerm(st, fam, arrSort(SInt, arrSort(g.intRep(), c.Sort)))
				st.heap[fam] = g.define("h", sto(f, base, Term{app("(as const "+arrSort(g.intRep(), c.Sort)+")", z.C[i].S), arrSort(g.intRep(), c.Sort)}))
			}
			g.env[x] = &SV{A: &Addr{K: aElem, Fam: elemFam(at.Elem()), Ref: base, T: t, Idx: Term{"", "ARRAY"}}}
			return
		}
		if x.Heap {
			ref := g.newRef(st)
			a := g.refAddr(ref, t)
			g.storeAddr(st, a, g.zeroVal(t))
			g.env[x] = &SV{V: Val{T: x.Type(), C: []Term{ref}}}
			return
		}
		st.cells[x] = g.zeroVal(t).C
		g.env[x] = &SV{A: &Addr{K: aLocal, Al: x, T: t}}
	case *ssa.Store:
		// a local pointer variable that holds an interior address (&x.f spilled from a parameter): remember the
		// address itself (such locals are assigned once)
		if al, ok := x.Addr.(*ssa.Alloc); ok && !al.Heap {
			if sv, ok := g.env[x.Val]; ok && sv.A != nil && !(sv.A.K == aHeap && sv.A.Path == "" && len(sv.A.AIdx) == 0) {
				if prev, dup := g.cellAddr[al]; dup && prev != sv.A {
					oos("local pointer %s holds different interior addresses", al.Comment)
				}
				g.cellAddr[al] = sv.A
				return
			}
		}
		a := g.addrOf(x.Addr)
		if a.K == aElem && a.Idx.Sort == "ARRAY" {
			// whole-array store into an array alloc
			g.storeArrayAlloc(a, g.val(x.Val))
			return
		}
		g.storeAddr(st, a, g.val(x.Val))
	case *ssa.UnOp:
		g.unop(x)
	case *ssa.BinOp:
		g.setVal(x, g.binop(x.Op, g.val(x.X), g.val(x.Y), x.Type(), true))
	case *ssa.FieldAddr:
		a := *g.addrOf(x.X)
		stt := a.T.Underlying().(*types.Struct)
		f := stt.Field(x.Field)
		a.Path += "." + f.Name()
		a.T = f.Type()
		g.env[x] = &SV{A: &a}
	case *ssa.Field:
		v := g.val(x.X)
		g.env[x] = &SV{V: g.fieldOf(v, x.Field)}
	case *ssa.IndexAddr:
		g.indexAddr(x)
	case *ssa.Index:
		g.index(x)
	case *ssa.Slice:
		g.slice(x)
	case *ssa.MakeSlice:
		g.makeSlice(x)
	case *ssa.Convert:
		g.convert(x)
	case *ssa.ChangeType:
		v := g.val(x.X)
		g.env[x] = &SV{V: Val{T: x.Type(), C: v.C}}
	case *ssa.ChangeInterface:
		v := g.val(x.X)
		g.env[x] = &SV{V: Val{T: x.Type(), C: v.C}}
	case *ssa.MakeInterface:
		v := g.val(x.X)
		var payload Term
		if _, ok := x.X.Type().Underlying().(*types.Pointer); ok {
			payload = v.C[0]
		} else {
			payload = g.fresh("iface_payload", SInt)
		}
		g.env[x] = &SV{V: Val{T: x.Type(), C: []Term{g.typeTagOf(x.X.Type()), payload}}}
	case *ssa.TypeAssert:
		g.typeAssert(x)
	case *ssa.Extract:
		tv := g.val(x.Tuple)
		tup := x.Tuple.Type().(*types.Tuple)
		off := 0
		for i := 0; i < x.Index; i++ {
			off += len(g.layout(tup.At(i).Type()))
		}
		n := len(g.layout(tup.At(x.Index).Type()))
		g.env[x] = &SV{V: Val{T: x.Type(), C: tv.C[off : off+n]}}
	case *ssa.Phi:
		g.phi(x, b, in)
	case *ssa.Call:
		g.call(x)
		if g.con != nil && (len(g.con.After) > 0 || len(g.con.AfterGhost) > 0) && len(g.inlineStack) == 0 {
			for _, k := range g.callKeys(x) {
				cx := g.ctxHere()
				// actual arguments of the call (a method's receiver is lastarg0): lets a hint speak about what was
				// really passed, not about the locals the unchanged code happens to pass
				for ai, a := range x.Call.Args {
					if av := g.valOpt(a); av != nil {
						cx.vars[fmt.Sprintf("lastarg%d", ai)] = *av
					}
				}
				if sv := g.env[x]; sv != nil {
					cx.vars["lastcall"] = sv.V
					// components of a tuple result: lastcall0, lastcall1, ...
					if tup, ok := sv.V.T.(*types.Tuple); ok {
						off := 0
						for i := 0; i < tup.Len(); i++ {
							n := len(g.layout(tup.At(i).Type()))
							if off+n <= len(sv.V.C) {
								cx.vars[fmt.Sprintf("lastcall%d", i)] = Val{T: tup.At(i).Type(), C: sv.V.C[off : off+n]}
							}
							off += n
						}
					}
				}
				for _, gd := range g.con.AfterGhost[k] {
					// inside a loop the ghost holds the value of the last modelled iteration (the one that leaves
					// the loop or returns): paths through a back edge end at the invariant obligations
					g.assignGhost(gd.Name, g.evalSpec(gd.Expr, cx))
				}
				for _, c := range g.con.After[k] {
					g.obligeClause(fmt.Sprintf("after[%s]", k), g.evalBool(c.Expr, cx, c), c)
				}
			}
		}
	case *ssa.MakeClosure:
		// closure value: opaque id; bindings remembered for direct calls
		g.closures[x] = x
		g.env[x] = &SV{V: Val{T: x.Type(), C: []Term{tInt(int64(g.funcID(x.Fn.(*ssa.Function))))}}}
	case *ssa.MakeMap:
		g.env[x] = &SV{V: Val{T: x.Type(), C: []Term{g.newRef(st)}}}
	case *ssa.Lookup:
		g.lookup(x)
	case *ssa.MapUpdate:
		// maps are opaque
	case *ssa.Range, *ssa.Next:
		g.rangeNext(ins)
	case *ssa.Defer:
		g.deferred = append(g.deferred, x)
	case *ssa.RunDefers:
		if len(g.deferred) > 0 {
			g.runDefers()
		}
	case *ssa.If:
		c := g.val(x.Cond).C[0]
		g.toEdge(b, b.Succs[0], and(g.reach, c), in)
		g.toEdge(b, b.Succs[1], and(g.reach, not(c)), in)
	case *ssa.Jump:
		g.toEdge(b, b.Succs[0], g.reach, in)
	case *ssa.Return:
		g.ret(x)
	case *ssa.Panic:
		if g.con == nil || g.con.Opts["allow_panic"] == "" {
			g.oblige("panic", not(g.reach), "explicit panic is unreachable")
		}
	case *ssa.SliceToArrayPointer, *ssa.MultiConvert, *ssa.Go, *ssa.Select, *ssa.Send, *ssa.MakeChan:
		oos("unsupported instruction %T", ins)
	default:
		oos("unsupported instruction %T: %s", ins, ins)
	}
}

// callOrdinal: 1-based index of a call instruction among the function's calls in source order
// callKeys: the names by which `after call K:` clauses can refer to this call: its ordinal in source order, the
// callee's bare name (if it is called once, or for the first call) and name#k for the k-th call of that callee.
func (g *Gen) callKeys(x *ssa.Call) []string {
	k := g.callOrdinal(x)
	if k == 0 {
		return nil
	}
	keys := []string{strconv.Itoa(k)}
	name := calleeBareName(x)
	if name == "" {
		return keys
	}
	var same []*ssa.Call
	for c := range g.callOrd {
		if calleeBareName(c) == name {
			same = append(same, c)
		}
	}
	sort.Slice(same, func(i, j int) bool { return same[i].Pos() < same[j].Pos() })
	for i, c := range same {
		if c == x {
			if i == 0 {
				keys = append(keys, name)
			}
			keys = append(keys, fmt.Sprintf("%s#%d", name, i+1), name+"#*")
		}
	}
	return keys
}

func calleeBareName(x *ssa.Call) string {
	cc := x.Common()
	if cc.IsInvoke() {
		return cc.Method.Name()
	}
	if b, ok := cc.Value.(*ssa.Builtin); ok {
		return b.Name()
	}
	if f := cc.StaticCallee(); f != nil {
		return f.Name()
	}
	if pr := callbackParam(cc.Value); pr != nil {
		return pr.Name() // user callback
	}
	return ""
}

func (g *Gen) callOrdinal(x *ssa.Call) int {
	if g.callOrd == nil {
		g.callOrd = map[*ssa.Call]int{}
		var calls []*ssa.Call
		for _, b := range g.fn.Blocks {
			for _, ins := range b.Instrs {
				if c, ok := ins.(*ssa.Call); ok && c.Pos().IsValid() {
					if bi, isB := c.Call.Value.(*ssa.Builtin); isB && (strings.HasPrefix(bi.Name(), "ssa:") || bi.Name() == "len" || bi.Name() == "cap" || bi.Name() == "min" || bi.Name() == "max") {
						continue
					}
					calls = append(calls, c)
				}
			}
		}
		sort.SliceStable(calls, func(i, j int) bool { return calls[i].Pos() < calls[j].Pos() })
		for i, c := range calls {
			g.callOrd[c] = i + 1
		}
	}
	return g.callOrd[x]
}

func (g *Gen) toEdge(from, to *ssa.BasicBlock, cond Term, in map[*ssa.BasicBlock][]edge) {
	if g.isBackEdge(from, to) {
		g.backEdge(g.loops[to], cond)
		return
	}
	c := g.define(fmt.Sprintf("edge_%d_%d", from.Index, to.Index), cond)
	// loop exit clauses: checked separately on each exit edge (small queries), then available after the join
	for _, li := range g.sortedLoops() {
		if li.spec == nil || (len(li.spec.Exit) == 0 && len(li.spec.ExitGhost) == 0) || !li.blocks[from] || li.blocks[to] {
			continue
		}
		saved, savedPos, savedLoop := g.reach, g.curPos, g.curLoop
		g.reach = c
		g.curPos = li.pos
		g.curLoop = li
		cx := g.ctxHere()
		for k, v := range li.ghosts {
			cx.vars[k] = v
		}
		for _, ex := range li.spec.Exit {
			g.obligeClause(fmt.Sprintf("exit[%d]", li.ordinal), g.evalBool(ex.Expr, cx, ex), ex)
		}
		for _, gd := range li.spec.ExitGhost {
			g.assignGhost(gd.Name, g.evalSpec(gd.Expr, cx))
		}
		g.reach, g.curPos, g.curLoop = saved, savedPos, savedLoop
	}
	in[to] = append(in[to], edge{from: from, cond: c, st: g.st.clone()})
}

func (g *Gen) phi(x *ssa.Phi, b *ssa.BasicBlock, in map[*ssa.BasicBlock][]edge) {
	es := in[b]
	lay := g.layout(x.Type())
	res := Val{T: x.Type()}
	for i, c := range lay {
		m := g.fresh(x.Name(), c.Sort)
		for _, e := range es {
			// find operand for this pred
			for k, p := range b.Preds {
				if p == e.from {
					v := g.val(x.Edges[k])
					g.assume(implies(e.cond, eq(m, v.C[i])))
				}
			}
		}
		res.C = append(res.C, m)
	}
	g.env[x] = &SV{V: res}
}

func (g *Gen) unop(x *ssa.UnOp) {
	switch x.Op {
	case token.MUL: // load
		if al, ok := x.X.(*ssa.Alloc); ok {
			if ad, ok := g.cellAddr[al]; ok {
				g.env[x] = &SV{A: ad}
				return
			}
		}
		a := g.addrOf(x.X)
		if a.K == aElem && a.Idx.Sort == "ARRAY" {
			g.env[x] = &SV{V: g.loadArrayAlloc(a)}
			return
		}
		v := g.loadAddr(g.st, a)
		g.noteLoaded(v)
		// opt elems_nonnil=T: slices of *T never hold nil (a type invariant of the producer, e.g. the syntax
		// parser's trees); listed as an assumption
		if g.con != nil && g.con.Opts["elems_nonnil"] != "" && a.K == aElem {
			if pt, ok := v.T.Underlying().(*types.Pointer); ok && strings.Contains(pt.Elem().String(), g.con.Opts["elems_nonnil"]) {
				g.assumeReach(not(eq(v.C[0], tInt(0))))
				note := "elements of []*" + g.con.Opts["elems_nonnil"] + " slices are never nil (" + g.fnName() + ")"
				dup := false
				for _, a := range g.assumptions {
					dup = dup || a == note
				}
				if !dup {
					g.assumptions = append(g.assumptions, note)
				}
			}
		}
		g.setVal(x, v)
	case token.NOT:
		v := g.val(x.X)
		g.setVal(x, Val{T: x.Type(), C: []Term{not(v.C[0])}})
	case token.SUB:
		v := g.val(x.X)
		z := g.zeroVal(x.Type())
		g.setVal(x, g.binop(token.SUB, z, v, x.Type(), true))
	case token.XOR:
		v := g.val(x.X)
		t := v.C[0]
		if isBV(t.Sort) {
			g.setVal(x, Val{T: x.Type(), C: []Term{{app("bvnot", t.S), t.Sort}}})
		} else {
			ii, _ := intInfo(x.Type())
			// ^x = -x-1 for signed; max-x for unsigned
			if ii.Signed {
				g.setVal(x, Val{T: x.Type(), C: []Term{{app("-", app("-", t.S), "1"), SInt}}})
			} else {
				g.setVal(x, Val{T: x.Type(), C: []Term{{app("-", ii.max().String(), t.S), SInt}}})
			}
		}
	default:
		oos("unsupported unary op %s", x.Op)
	}
}

// after loading reference-like components assume they predate the allocation counter and are well-formed
func (g *Gen) noteLoaded(v Val) {
	lay := g.layout(v.T)
	for i, c := range lay {
		switch c.Kind {
		case "ref", "base":
			g.assume(Term{app("<=", "0", v.C[i].S), SBool})
			g.assumeOld(g.st, v.C[i])
		case "bbase":
			if os.Getenv("GOVC_BBASE_SIGN") != "" {
				g.assume(Term{app("<=", "0", v.C[i].S), SBool})
			}
			g.assumeOld(g.st, v.C[i])
		case "strbase":
			g.assume(Term{app("<=", v.C[i].S, "0"), SBool})
		}
	}
	g.assumeSliceWF(v)
}

func (g *Gen) loadArrayAlloc(a *Addr) Val {
	at := a.T.Underlying().(*types.Array)
	v := Val{T: a.T}
	for _, c := range g.layout(at.Elem()) {
		fam := a.Fam + c.Path
		f := g.famTerm(g.st, fam, arrSort(SInt, arrSort(g.intRep(), c.Sort)))
		v.C = append(v.C, sel(f, a.Ref))
	}
	return v
}

func (g *Gen) storeArrayAlloc(a *Addr, v Val) {
	at := a.T.Underlying().(*types.Array)
	for i, c := range g.layout(at.Elem()) {
		fam := a.Fam + c.Path
		f := g.famTerm(g.st, fam, arrSort(SInt, arrSort(g.intRep(), c.Sort)))
		g.st.heap[fam] = g.define("h", sto(f, a.Ref, v.C[i]))
	}
}

func (g *Gen) idxTerm(v Val) Term {
	// index operands may be of any integer type; convert to the int representation
	ii, ok := intInfo(v.T)
	if !ok {
		oos("non-integer index")
	}
	return convertInt(v.C[0], ii, IntInfo{64, true}, g.intRep())
}

func (g *Gen) lt(a, b Term) Term {
	if a.Sort == SInt {
		return Term{app("<", a.S, b.S), SBool}
	}
	return Term{app("bvslt", a.S, b.S), SBool}
}
func (g *Gen) le(a, b Term) Term {
	if a.Sort == SInt {
		return Term{app("<=", a.S, b.S), SBool}
	}
	return Term{app("bvsle", a.S, b.S), SBool}
}
func (g *Gen) addI(a, b Term) Term {
	if a.Sort == SInt {
		if b.S == "0" {
			return a
		}
		if a.S == "0" {
			return b
		}
		return linNorm(Term{app("+", a.S, b.S), SInt})
	}
	return Term{app("bvadd", a.S, b.S), a.Sort}
}
func (g *Gen) subI(a, b Term) Term {
	if a.Sort == SInt {
		if b.S == "0" {
			return a
		}
		return linNorm(Term{app("-", a.S, b.S), SInt})
	}
	return Term{app("bvsub", a.S, b.S), a.Sort}
}
func (g *Gen) zeroI() Term { return litOfSort(bigZero, g.intRep()) }

func (g *Gen) indexAddr(x *ssa.IndexAddr) {
	iv := g.idxTerm(g.val(x.Index))
	switch xt := x.X.Type().Underlying().(type) {
	case *types.Slice:
		s := g.val(x.X)
		g.oblige("index", and(g.le(g.zeroI(), iv), g.lt(iv, s.C[2])), fmt.Sprintf("index in range: %s[%s]", x.X.Name(), x.Index.Name()))
		g.env[x] = &SV{A: &Addr{K: aElem, Fam: elemFam(xt.Elem()), Ref: s.C[0], Idx: g.define("ix", g.addI(s.C[1], iv)), T: xt.Elem()}}
	case *types.Pointer:
		at := xt.Elem().Underlying().(*types.Array)
		g.oblige("index", and(g.le(g.zeroI(), iv), g.lt(iv, litOfSort(bigInt(at.Len()), g.intRep()))), fmt.Sprintf("array index in range: %s[%s]", x.X.Name(), x.Index.Name()))
		a := *g.addrOf(x.X)
		if a.K == aElem && a.Idx.Sort == "ARRAY" {
			g.env[x] = &SV{A: &Addr{K: aElem, Fam: a.Fam, Ref: a.Ref, Idx: iv, T: at.Elem()}}
			return
		}
		a.Path += "[]"
		a.AIdx = append(append([]Term(nil), a.AIdx...), iv)
		a.T = at.Elem()
		g.env[x] = &SV{A: &a}
	default:
		oos("IndexAddr on %s", x.X.Type())
	}
}

func (g *Gen) index(x *ssa.Index) {
	iv := g.idxTerm(g.val(x.Index))
	v := g.val(x.X)
	switch xt := x.X.Type().Underlying().(type) {
	case *types.Array:
		g.oblige("index", and(g.le(g.zeroI(), iv), g.lt(iv, litOfSort(bigInt(xt.Len()), g.intRep()))), "array index in range")
		res := Val{T: x.Type()}
		for _, c := range v.C {
			res.C = append(res.C, sel(c, iv))
		}
		g.setVal(x, res)
	case *types.Basic: // string
		g.oblige("index", and(g.le(g.zeroI(), iv), g.lt(iv, v.C[2])), "string index in range")
		g.setVal(x, Val{T: x.Type(), C: []Term{g.byteAt(g.st, v.C[0], g.addI(v.C[1], iv))}})
	default:
		oos("Index on %s", x.X.Type())
	}
}

func (g *Gen) byteSort() string { return g.mode.intSort(IntInfo{8, false}) }

func (g *Gen) byteAt(st *State, base, idx Term) Term {
	fam := elemFam(types.Typ[types.Uint8])
	f := g.famTerm(st, fam, arrSort(SInt, arrSort(g.intRep(), g.byteSort())))
	t := sel(sel(f, base), idx)
	if t.Sort == SInt {
		t = g.define("byte", t)
		g.assume(rangeFact(t, IntInfo{8, false}))
	}
	return t
}

func (g *Gen) byteAtPure(st *State, base, idx Term) Term {
	fam := elemFam(types.Typ[types.Uint8])
	g.noteLeaf(fam, Comp{"", g.byteSort(), types.Typ[types.Uint8], "int"})
	f := g.famTerm(st, fam, arrSort(SInt, arrSort(g.intRep(), g.byteSort())))
	return sel(sel(f, base), idx)
}

func (g *Gen) slice(x *ssa.Slice) {
	ir := g.intRep()
	getI := func(v ssa.Value) (Term, bool) {
		if v == nil {
			return Term{}, false
		}
		return g.idxTerm(g.val(v)), true
	}
	lo, hasLo := getI(x.Low)
	hi, hasHi := getI(x.High)
	mx, hasMax := getI(x.Max)
	if !hasLo {
		lo = litOfSort(bigZero, ir)
	}
	switch xt := x.X.Type().Underlying().(type) {
	case *types.Slice:
		s := g.val(x.X)
		if !hasHi {
			hi = s.C[2]
		}
		capT := s.C[3]
		if hasMax {
			g.oblige("slice", and(g.le(g.zeroI(), lo), g.le(lo, hi), g.le(hi, mx), g.le(mx, capT)), "slice bounds (3-index)")
			capT = mx
		} else {
			g.oblige("slice", and(g.le(g.zeroI(), lo), g.le(lo, hi), g.le(hi, capT)), fmt.Sprintf("slice bounds %s[%s:%s]", x.X.Name(), nameOf(x.Low), nameOf(x.High)))
		}
		g.setVal(x, Val{T: x.Type(), C: []Term{s.C[0], g.addI(s.C[1], lo), g.subI(hi, lo), g.subI(capT, lo)}})
	case *types.Basic: // string
		s := g.val(x.X)
		if !hasHi {
			hi = s.C[2]
		}
		g.oblige("slice", and(g.le(g.zeroI(), lo), g.le(lo, hi), g.le(hi, s.C[2])), "string slice bounds")
		g.setVal(x, Val{T: x.Type(), C: []Term{s.C[0], g.addI(s.C[1], lo), g.subI(hi, lo)}})
	case *types.Pointer: // pointer to array
		at := xt.Elem().Underlying().(*types.Array)
		a := g.addrOf(x.X)
		if !(a.K == aElem && a.Idx.Sort == "ARRAY") {
			oos("slicing an array that is not a local/new array")
		}
		n := litOfSort(bigInt(at.Len()), ir)
		if !hasHi {
			hi = n
		}
		g.oblige("slice", and(g.le(g.zeroI(), lo), g.le(lo, hi), g.le(hi, n)), "array slice bounds")
		g.setVal(x, Val{T: x.Type(), C: []Term{a.Ref, lo, g.subI(hi, lo), g.subI(n, lo)}})
	default:
		oos("Slice on %s", x.X.Type())
	}
}

func nameOf(v ssa.Value) string {
	if v == nil {
		return ""
	}
	return v.Name()
}

func (g *Gen) makeSlice(x *ssa.MakeSlice) {
	st := g.st
	ln := g.idxTerm(g.val(x.Len))
	cp := g.idxTerm(g.val(x.Cap))
	g.oblige("makeslice", and(g.le(g.zeroI(), ln), g.le(ln, cp)), "make: 0 <= len <= cap")
	base := g.newRef(st)
	et := x.Type().Underlying().(*types.Slice).Elem()
	z := g.zeroVal(et)
	for i, c := range g.layout(et) {
		fam := elemFam(et) + c.Path
		as := arrSort(g.intRep(), c.Sort)
		f := g.famTerm(st, fam, arrSort(SInt, as))
		st.heap[fam] = g.define("h", sto(f, base, Term{app("(as const "+as+")", z.C[i].S), as}))
	}
	g.setVal(x, Val{T: x.Type(), C: []Term{base, g.zeroI(), ln, cp}})
}

func (g *Gen) convert(x *ssa.Convert) {
	v := g.val(x.X)
	from, to := x.X.Type(), x.Type()
	fi, fok := intInfo(from)
	ti, tok := intInfo(to)
	switch {
	case fok && tok:
		g.setVal(x, Val{T: to, C: []Term{convertInt(v.C[0], fi, ti, g.mode.intSort(ti))}})
	case isString(to) && isByteSlice(from):
		// string(b): fresh immutable copy
		g.n++
		base := g.fresh("strconv", SInt)
		g.assume(Term{app("<", base.S, "0"), SBool})
		g.assumeCopyBytes(base, g.zeroI(), v.C[0], v.C[1], v.C[2])
		g.setVal(x, Val{T: to, C: []Term{base, g.zeroI(), v.C[2]}})
	case isByteSlice(to) && isString(from):
		base := g.newRef(g.st)
		// contents: new family version where base holds a copy
		g.copyIntoFresh(base, v.C[0], v.C[1], v.C[2])
		g.setVal(x, Val{T: to, C: []Term{base, g.zeroI(), v.C[2], v.C[2]}})
	case isString(to) && fok:
		oos("string(rune) conversion")
	default:
		if _, ok := to.Underlying().(*types.Basic); ok && to.Underlying().(*types.Basic).Kind() == types.UnsafePointer {
			g.env[x] = &SV{V: Val{T: to, C: []Term{g.fresh("unsafe", SInt)}}}
			return
		}
		oos("unsupported conversion %s -> %s", from, to)
	}
}

func isString(t types.Type) bool {
	b, ok := t.Underlying().(*types.Basic)
	return ok && b.Info()&types.IsString != 0
}
func isByteSlice(t types.Type) bool {
	s, ok := t.Underlying().(*types.Slice)
	if !ok {
		return false
	}
	b, ok := s.Elem().Underlying().(*types.Basic)
	return ok && b.Kind() == types.Uint8
}

// assumeCopyBytes: bytes [doff, doff+n) of dbase equal bytes [soff, soff+n) of sbase in the current heap.
func (g *Gen) assumeCopyBytes(dbase, doff, sbase, soff, n Term) {
	fam := elemFam(types.Typ[types.Uint8])
	f := g.famTerm(g.st, fam, arrSort(SInt, arrSort(g.intRep(), g.byteSort())))
	g.n++
	q := fmt.Sprintf("q!%d", g.n)
	qv := Term{q, g.intRep()}
	body := implies(and(g.le(g.zeroI(), qv), g.lt(qv, n)), eq(sel(sel(f, dbase), g.addI(doff, qv)), sel(sel(f, sbase), g.addI(soff, qv))))
	g.assume(Term{fmt.Sprintf("(forall ((%s %s)) %s)", q, g.intRep(), body.S), SBool})
}

func (g *Gen) copyIntoFresh(base, sbase, soff, n Term) {
	fam := elemFam(types.Typ[types.Uint8])
	as := arrSort(g.intRep(), g.byteSort())
	f := g.famTerm(g.st, fam, arrSort(SInt, as))
	na := g.fresh("copyarr", as)
	g.n++
	q := fmt.Sprintf("q!%d", g.n)
	qv := Term{q, g.intRep()}
	body := implies(and(g.le(g.zeroI(), qv), g.lt(qv, n)), eq(sel(na, qv), sel(sel(f, sbase), g.addI(soff, qv))))
	g.assume(Term{fmt.Sprintf("(forall ((%s %s)) %s)", q, g.intRep(), body.S), SBool})
	g.st.heap[fam] = g.define("h", sto(f, base, na))
}

func (g *Gen) typeAssert(x *ssa.TypeAssert) {
	v := g.val(x.X)
	if _, isIface := x.AssertedType.Underlying().(*types.Interface); isIface {
		// interface-to-interface: opaque success flag
		ok := g.fresh("taok", SBool)
		if x.CommaOk {
			g.env[x] = &SV{V: Val{T: x.Type(), C: append(append([]Term{}, v.C...), ok)}}
		} else {
			g.oblige("typeassert", ok, "interface type assertion succeeds")
			g.env[x] = &SV{V: Val{T: x.Type(), C: v.C}}
		}
		return
	}
	tag := g.typeTagOf(x.AssertedType)
	okc := eq(v.C[0], tag)
	var payload []Term
	if _, isPtr := x.AssertedType.Underlying().(*types.Pointer); isPtr {
		payload = []Term{v.C[1]}
	} else {
		payload = g.freshVal("ta", x.AssertedType, g.st).C
	}
	if x.CommaOk {
		g.env[x] = &SV{V: Val{T: x.Type(), C: append(payload, okc)}}
	} else {
		g.oblige("typeassert", okc, "type assertion succeeds")
		g.env[x] = &SV{V: Val{T: x.Type(), C: payload}}
	}
}

func (g *Gen) lookup(x *ssa.Lookup) {
	if isString(x.X.Type()) {
		v := g.val(x.X)
		iv := g.idxTerm(g.val(x.Index))
		g.oblige("index", and(g.le(g.zeroI(), iv), g.lt(iv, v.C[2])), "string index in range")
		g.setVal(x, Val{T: x.Type(), C: []Term{g.byteAt(g.st, v.C[0], g.addI(v.C[1], iv))}})
		return
	}
	// map lookup: unconstrained result
	if x.CommaOk {
		tup := x.Type().(*types.Tuple)
		v := g.freshVal("maplookup", tup.At(0).Type(), g.st)
		ok := g.fresh("mapok", SBool)
		if g.con != nil && g.con.Opts["map_values_nonnil"] != "" {
			if _, isPtr := tup.At(0).Type().Underlying().(*types.Pointer); isPtr {
				g.assume(implies(ok, not(eq(v.C[0], tInt(0)))))
				g.noteAssumption("values stored in maps are non-nil pointers in " + g.fnName())
			}
		}
		g.env[x] = &SV{V: Val{T: x.Type(), C: append(v.C, ok)}}
		return
	}
	v := g.freshVal("maplookup", x.Type(), g.st)
	if g.con != nil && g.con.Opts["map_values_nonnil"] != "" {
		if _, isPtr := x.Type().Underlying().(*types.Pointer); isPtr {
			g.assume(not(eq(v.C[0], tInt(0))))
			g.noteAssumption("values stored in maps are non-nil pointers in " + g.fnName())
		}
	}
	g.env[x] = &SV{V: v}
}

func (g *Gen) rangeNext(ins ssa.Instruction) {
	switch x := ins.(type) {
	case *ssa.Range:
		if isString(x.X.Type()) {
			oos("range over string")
		}
		// map iteration: opaque iterator
		g.env[x] = &SV{V: Val{T: x.Type(), C: []Term{tInt(0)}}}
	case *ssa.Next:
		if x.IsString {
			oos("range over string")
		}
		// (ok, key, value): unconstrained
		tup := x.Type().(*types.Tuple)
		res := Val{T: x.Type()}
		res.C = append(res.C, g.fresh("mapnext_ok", SBool))
		for i := 1; i < tup.Len(); i++ {
			if b, ok := tup.At(i).Type().(*types.Basic); ok && b.Kind() == types.Invalid {
				continue
			}
			res.C = append(res.C, g.freshVal("mapnext", tup.At(i).Type(), g.st).C...)
		}
		g.env[x] = &SV{V: res}
	}
}

func (g *Gen) ret(x *ssa.Return) {
	var res []Val
	for _, r := range x.Results {
		res = append(res, g.val(r))
	}
	if len(g.inlineStack) > 0 {
		g.inlineRets = append(g.inlineRets, inlineRet{cond: g.reach, st: g.st.clone(), vals: res})
		return
	}
	g.cover("cover.return", "return reachable")
	if g.con == nil {
		return
	}
	cx := g.ctxReturn(res)
	for _, e := range g.con.Ensures {
		if e.Assumed {
			note := "assumed postcondition of " + g.fnName() + ": " + e.Text
			dup := false
			for _, a := range g.assumptions {
				dup = dup || a == note
			}
			if !dup {
				g.assumptions = append(g.assumptions, note)
			}
			continue
		}
		g.obligeClause("ensures", g.evalBool(e.Expr, cx, e), e)
	}
	// a contract without a modifies clause means "modifies nothing that existed at entry": callers assume exactly
	// that, so it is checked here
	g.checkModifies()
}
