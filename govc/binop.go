package main

import (
	"fmt"
	"go/token"
	"go/types"
	"math/big"
)

// binop translates a Go binary operation. checked=true emits overflow/division obligations.
func (g *Gen) binop(op token.Token, a, b Val, rt types.Type, checked bool) Val {
	boolT := types.Typ[types.Bool]
	// comparisons of non-integers
	switch op {
	case token.EQL, token.NEQ:
		var parts []Term
		if len(a.C) != len(b.C) {
			// comparison with nil constant of different shape
			if len(b.C) == 1 && b.C[0].S == "0" {
				b = g.zeroVal(a.T)
			} else if len(a.C) == 1 && a.C[0].S == "0" {
				a = g.zeroVal(b.T)
			} else {
				oos("comparison of different shapes")
			}
		}
		if isString(a.T) {
			// string equality: equal lengths and equal bytes
			q := g.qvar()
			ba := g.byteAtPure(g.st, a.C[0], g.addI(a.C[1], q))
			bb := g.byteAtPure(g.st, b.C[0], g.addI(b.C[1], q))
			r := and(eq(a.C[2], b.C[2]), g.forall(q, implies(and(g.le(g.zeroI(), q), g.lt(q, a.C[2])), eq(ba, bb))))
			if op == token.NEQ {
				r = not(r)
			}
			return Val{T: boolT, C: []Term{r}}
		}
		if _, ok := a.T.Underlying().(*types.Slice); ok {
			// slice == nil : base == 0 (only nil slices have base 0)
			parts = append(parts, eq(a.C[0], b.C[0]))
		} else {
			for i := range a.C {
				parts = append(parts, eq(a.C[i], b.C[i]))
			}
		}
		r := and(parts...)
		if op == token.NEQ {
			r = not(r)
		}
		return Val{T: boolT, C: []Term{r}}
	}
	if bt, ok := a.T.Underlying().(*types.Basic); ok && bt.Info()&types.IsBoolean != 0 {
		switch op {
		case token.AND, token.LAND:
			return Val{T: boolT, C: []Term{and(a.C[0], b.C[0])}}
		case token.OR, token.LOR:
			return Val{T: boolT, C: []Term{or(a.C[0], b.C[0])}}
		}
	}
	ii, ok := intInfo(a.T)
	if !ok {
		oos("binary op %s on %s", op, a.T)
	}
	x, y := a.C[0], b.C[0]
	if x.Sort == SInt {
		return g.binopInt(op, x, y, ii, a.T, b.T, rt, checked)
	}
	return g.binopBV(op, x, y, ii, b.T, rt, checked)
}

func (g *Gen) binopInt(op token.Token, x, y Term, ii IntInfo, at, bt, rt types.Type, checked bool) Val {
	boolT := types.Typ[types.Bool]
	mk := func(s string) Val { return Val{T: rt, C: []Term{{s, SInt}}} }
	arith := func(s string) Val {
		t := Term{s, SInt}
		if !ii.Signed {
			return Val{T: rt, C: []Term{wrapInt(t, ii)}}
		}
		if checked && g.con != nil && g.con.Opts["math_int"] != "" {
			g.noteAssumption("machine arithmetic treated as mathematical (no overflow obligations) in " + g.fnName())
		} else if checked {
			t = g.define("ar", t)
			g.oblige("overflow", rangeFact(t, ii), "signed arithmetic does not overflow: "+s)
		}
		return Val{T: rt, C: []Term{t}}
	}
	switch op {
	case token.LSS:
		return Val{T: boolT, C: []Term{{app("<", x.S, y.S), SBool}}}
	case token.LEQ:
		return Val{T: boolT, C: []Term{{app("<=", x.S, y.S), SBool}}}
	case token.GTR:
		return Val{T: boolT, C: []Term{{app(">", x.S, y.S), SBool}}}
	case token.GEQ:
		return Val{T: boolT, C: []Term{{app(">=", x.S, y.S), SBool}}}
	case token.ADD:
		return arith(app("+", x.S, y.S))
	case token.SUB:
		return arith(app("-", x.S, y.S))
	case token.MUL:
		return arith(app("*", x.S, y.S))
	case token.QUO:
		if checked {
			g.oblige("div", not(eq(y, tInt(0))), "division by zero")
		}
		if cv, ok := parseIntLit(y.S); ok && cv.Sign() > 0 && !ii.Signed {
			return mk(app("div", x.S, y.S))
		}
		return mk(app("go_quo", x.S, y.S))
	case token.REM:
		if checked {
			g.oblige("div", not(eq(y, tInt(0))), "division by zero")
		}
		if cv, ok := parseIntLit(y.S); ok && cv.Sign() > 0 && !ii.Signed {
			return mk(app("mod", x.S, y.S))
		}
		return mk(app("go_rem", x.S, y.S))
	case token.SHL:
		if cv, ok := parseIntLit(y.S); ok && cv.IsInt64() && cv.Int64() < 63 {
			return arith(app("*", x.S, pow2(int(cv.Int64())).String()))
		}
		// constant shifted by a variable count (mask construction `1<<(6*i) - 1`): case table over the count;
		// a count of 62 or more leaves the value unconstrained (sound: more behaviours)
		if _, ok := parseIntLit(x.S); ok {
			t := g.fresh("shl", SInt).S
			for k := 61; k >= 0; k-- {
				t = fmt.Sprintf("(ite (= %s %d) %s %s)", y.S, k, app("*", x.S, pow2(k).String()), t)
			}
			return arith(t)
		}
	case token.SHR:
		if cv, ok := parseIntLit(y.S); ok && cv.IsInt64() && cv.Int64() < 63 {
			return mk(app("div", x.S, pow2(int(cv.Int64())).String()))
		}
	case token.AND, token.OR, token.AND_NOT, token.XOR:
		// for signed operands the encodings below are two's-complement correct for x >= 0 only: obligation
		if ii.Signed && checked {
			if _, ok := parseIntLit(y.S); ok {
				g.oblige("bitop", Term{app("<=", "0", x.S), SBool}, "bit operation with a constant on a non-negative signed value")
			} else if _, ok := parseIntLit(x.S); ok {
				g.oblige("bitop", Term{app("<=", "0", y.S), SBool}, "bit operation with a constant on a non-negative signed value")
			}
		}
		{
			if cv, ok := parseIntLit(y.S); ok {
				if r, ok := intBitop(op.String(), x.S, cv); ok {
					return mk(r)
				}
			}
			if cv, ok := parseIntLit(x.S); ok && op != token.AND_NOT {
				if r, ok := intBitop(op.String(), y.S, cv); ok {
					return mk(r)
				}
			}
		}
	}
	// bit operation with a VARIABLE low mask 2^k-1 (k = 1..31) as one operand: exact case table over the mask
	// value; for any other value of that operand the result is left unconstrained (sound for proving)
	switch op {
	case token.AND, token.OR, token.AND_NOT:
		if _, lit := parseIntLit(x.S); !lit || op != token.AND_NOT {
			v, m := x.S, y.S
			if _, lit := parseIntLit(x.S); lit {
				v, m = y.S, x.S
			}
			t := g.fresh("bitop", SInt).S
			okAll := true
			for k := 31; k >= 1; k-- {
				mask := new(big.Int).Sub(pow2(k), big.NewInt(1))
				r, ok := intBitop(op.String(), v, mask)
				if !ok {
					okAll = false
					break
				}
				t = fmt.Sprintf("(ite (= %s %s) %s %s)", m, mask.String(), r, t)
			}
			if okAll {
				g.noteAssumption("bit operation with a variable operand in " + g.fnName() + ": exact when the operand is a low mask 2^k-1 (k=1..31), otherwise the result is unconstrained")
				return mk(t)
			}
		}
	}
	oos("operator %s on mathematical integers needs `arith mixed` or `arith bv`", op)
	return Val{}
}

// intBitop encodes x OP c for a non-negative Int-sorted x and a constant c with simple shape
// (low mask 2^k-1 or single bit 2^k) in linear integer arithmetic.
func intBitop(op string, x string, c *big.Int) (string, bool) {
	if c.Sign() == 0 {
		switch op {
		case "&":
			return "0", true
		case "|", "^":
			return x, true
		}
	}
	singleBit := c.Sign() > 0 && new(big.Int).And(c, new(big.Int).Sub(c, big.NewInt(1))).Sign() == 0
	bitOf := func(k int) string { // value of bit k of x scaled: 2^k * bit
		p := pow2(k).String()
		return app("*", p, app("mod", app("div", x, p), "2"))
	}
	andConst := func() (string, bool) {
		if isMask(c) {
			return app("mod", x, new(big.Int).Add(c, big.NewInt(1)).String()), true
		}
		if c.Sign() <= 0 || c.BitLen() > 64 {
			return "", false
		}
		var parts []string
		for k := 0; k < c.BitLen(); k++ {
			if c.Bit(k) == 1 {
				parts = append(parts, bitOf(k))
			}
		}
		if len(parts) == 1 {
			return parts[0], true
		}
		return app("+", parts...), true
	}
	_ = singleBit
	switch op {
	case "&":
		return andConst()
	case "|":
		if a, ok := andConst(); ok {
			return app("-", app("+", x, c.String()), a), true
		}
	case "&^":
		if a, ok := andConst(); ok {
			return app("-", x, a), true
		}
	case "^":
		if a, ok := andConst(); ok {
			// x ^ c = x + c - 2*(x & c)
			return app("-", app("+", x, c.String()), app("*", "2", a)), true
		}
	}
	return "", false
}

func isMask(v *big.Int) bool {
	if v.Sign() <= 0 {
		return false
	}
	n := new(big.Int).Add(v, big.NewInt(1))
	return new(big.Int).And(n, v).Sign() == 0
}

func (g *Gen) binopBV(op token.Token, x, y Term, ii IntInfo, bt, rt types.Type, checked bool) Val {
	boolT := types.Typ[types.Bool]
	w := bvWidth(x.Sort)
	mk := func(o string) Val { return Val{T: rt, C: []Term{{app(o, x.S, y.S), x.Sort}}} }
	pick := func(u, s string) string {
		if ii.Signed {
			return s
		}
		return u
	}
	switch op {
	case token.LSS:
		return Val{T: boolT, C: []Term{{app(pick("bvult", "bvslt"), x.S, y.S), SBool}}}
	case token.LEQ:
		return Val{T: boolT, C: []Term{{app(pick("bvule", "bvsle"), x.S, y.S), SBool}}}
	case token.GTR:
		return Val{T: boolT, C: []Term{{app(pick("bvugt", "bvsgt"), x.S, y.S), SBool}}}
	case token.GEQ:
		return Val{T: boolT, C: []Term{{app(pick("bvuge", "bvsge"), x.S, y.S), SBool}}}
	case token.ADD:
		if ii.Signed && checked {
			g.oblige("overflow", Term{app("not", app("bvsaddo", x.S, y.S)), SBool}, "signed add overflow")
		}
		return mk("bvadd")
	case token.SUB:
		if ii.Signed && checked {
			g.oblige("overflow", Term{app("not", app("bvssubo", x.S, y.S)), SBool}, "signed sub overflow")
		}
		return mk("bvsub")
	case token.MUL:
		if ii.Signed && checked {
			g.oblige("overflow", Term{app("not", app("bvsmulo", x.S, y.S)), SBool}, "signed mul overflow")
		}
		return mk("bvmul")
	case token.QUO:
		if checked {
			g.oblige("div", not(eq(y, bvLit(bigZero, w))), "division by zero")
		}
		return mk(pick("bvudiv", "bvsdiv"))
	case token.REM:
		if checked {
			g.oblige("div", not(eq(y, bvLit(bigZero, w))), "division by zero")
		}
		return mk(pick("bvurem", "bvsrem"))
	case token.AND:
		return mk("bvand")
	case token.OR:
		return mk("bvor")
	case token.XOR:
		return mk("bvxor")
	case token.AND_NOT:
		return Val{T: rt, C: []Term{{app("bvand", x.S, app("bvnot", y.S)), x.Sort}}}
	case token.SHL, token.SHR:
		// shift count: any integer type, possibly Int-sorted (mixed mode, signed count)
		var cnt Term
		if y.Sort == SInt {
			cnt = Term{app(fmt.Sprintf("(_ int2bv %d)", w), y.S), x.Sort}
			big := Term{app(">=", y.S, fmt.Sprint(w)), SBool}
			sh := g.shiftBV(op, x, cnt, ii)
			return Val{T: rt, C: []Term{ite(big, g.shiftOver(op, x, ii), sh)}}
		}
		yw := bvWidth(y.Sort)
		switch {
		case yw == w:
			cnt = y
			return Val{T: rt, C: []Term{g.shiftBV(op, x, cnt, ii)}}
		case yw < w:
			cnt = Term{app(fmt.Sprintf("(_ zero_extend %d)", w-yw), y.S), x.Sort}
			return Val{T: rt, C: []Term{g.shiftBV(op, x, cnt, ii)}}
		default:
			cnt = Term{app(fmt.Sprintf("(_ extract %d 0)", w-1), y.S), x.Sort}
			big := Term{app("bvuge", y.S, bvLit(bigInt(int64(w)), yw).S), SBool}
			return Val{T: rt, C: []Term{ite(big, g.shiftOver(op, x, ii), g.shiftBV(op, x, cnt, ii))}}
		}
	}
	oos("unsupported bit-vector operator %s", op)
	return Val{}
}

func (g *Gen) shiftBV(op token.Token, x, cnt Term, ii IntInfo) Term {
	switch {
	case op == token.SHL:
		return Term{app("bvshl", x.S, cnt.S), x.Sort}
	case ii.Signed:
		return Term{app("bvashr", x.S, cnt.S), x.Sort}
	default:
		return Term{app("bvlshr", x.S, cnt.S), x.Sort}
	}
}

func (g *Gen) shiftOver(op token.Token, x Term, ii IntInfo) Term {
	w := bvWidth(x.Sort)
	if op == token.SHR && ii.Signed {
		return Term{app("bvashr", x.S, bvLit(bigInt(int64(w-1)), w).S), x.Sort}
	}
	return bvLit(bigZero, w)
}
